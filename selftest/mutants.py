"""Sensitivity mutants: small realistic breakages, one string replacement each, applied to
a scratch copy of /repo/src. Each must be caught by the quick check of its property.
(name, property, file under src/funtracks, old, new)"""

M = []


def m(name, prop, file, old, new):
    M.append({"name": name, "prop": prop, "file": file, "old": old, "new": new})


# ----------------------------------------------------------------------------- C01
m("C01-deletenode-captures-only-time-track", "C01", "actions/add_delete_node.py",
  "            for key, val in self.tracks.graph.nodes[node].items()\n            if val is not None",
  "            for key, val in self.tracks.graph.nodes[node].items()\n            if val is not None and key != 'score'")
m("C01-deleteedge-captures-no-attrs", "C01", "actions/add_delete_edge.py",
  "            for key, val in self.tracks.graph.edges[self.edge].items()\n            if val is not None",
  "            for key, val in self.tracks.graph.edges[self.edge].items()\n            if val is not None and False")
m("C01-updatenodeseg-inverse-keeps-added", "C01", "actions/update_segmentation.py",
  "            added=not self.added,", "            added=self.added,")
m("C01-updatetrackids-inverse-passes-new-ids", "C01", "actions/update_track_id.py",
  "            self.old_tracklet_id,\n            self.old_lineage_id,", "            self.new_tracklet_id,\n            self.old_lineage_id,")
m("C01-actiongroup-inverse-not-reversed", "C01", "actions/_base.py",
  "for action in self.actions[::-1]]", "for action in self.actions]")
m("C01-updateattrs-prev-after-apply", "C01", "actions/update_node_attrs.py",
  "        self.prev_attrs = {attr: self.tracks.get_node_attr(node, attr) for attr in attrs}\n        self.new_attrs = attrs\n        self._apply()",
  "        self.new_attrs = attrs\n        self._apply()\n        self.prev_attrs = {attr: self.tracks.get_node_attr(node, attr) for attr in attrs}")
# ----------------------------------------------------------------------------- C02
m("C02-add-new-action-drops-redo-stack", "C02", "actions/action_history.py",
  "            self.undo_stack.extend(self.redo_stack)\n", "")
m("C02-undo-uses-last-of-stack", "C02", "actions/action_history.py",
  "            action = self.undo_stack[self._undo_pointer]", "            action = self.undo_stack[-1]")
m("C02-redo-rerecords", "C02", "actions/action_history.py",
  "            action.inverse()\n            return True", "            self.undo_stack.append(action.inverse())\n            return True")
m("C02-nested-delete-edge-registers", "C02", "user_actions/user_delete_edge.py",
  "        if _top_level:\n            self.tracks.action_history.add_new_action(self)",
  "        if True:\n            self.tracks.action_history.add_new_action(self)")
m("C02-undo-true-on-empty", "C02", "actions/action_history.py",
  "        if self._undo_pointer < 0:\n            return False", "        if self._undo_pointer < 0:\n            return True")
m("C02-undo-pointer-off-by-one", "C02", "actions/action_history.py",
  "        if self._undo_pointer < 0:\n            return False", "        if self._undo_pointer < 1:\n            return False")
# ----------------------------------------------------------------------------- C03
m("C03-merge-check-removed", "C03", "user_actions/user_add_edge.py",
  "            if not force:\n                raise InvalidActionError(\n                    f\"Cannot make a merge edge", "            if False:\n                raise InvalidActionError(\n                    f\"Cannot make a merge edge")
m("C11-third-child-check-late", "C11", "user_actions/user_add_edge.py",
  "        if out_degree_source > 1:\n            raise InvalidActionError(\n                f\"Expected degree of 0 or 1 before adding edge, got {out_degree_source}\"\n            )\n\n        # Check if making a merge.",
  "        if out_degree_source > 2:\n            raise InvalidActionError(\n                f\"Expected degree of 0 or 1 before adding edge, got {out_degree_source}\"\n            )\n\n        # Check if making a merge.")
m("C03-time-check-removed", "C03", "user_actions/user_add_edge.py",
  "        if tracks.get_time(source) >= tracks.get_time(target):", "        if tracks.get_time(source) > tracks.get_time(target):")
m("C03-downstream-division-check-removed", "C03", "user_actions/user_add_node.py",
  "                and self.tracks.graph.out_degree(pred_of_succ) == 2\n            ):", "                and self.tracks.graph.out_degree(pred_of_succ) == 3\n            ):")
m("C11-swap-first-time-check-removed", "C11", "user_actions/_user_swap_predecessors.py",
  "            if pred1_time >= time2:", "            if pred1_time > time2 + 100:")
# ----------------------------------------------------------------------------- C04
m("C04-no-sibling-relabel-delete-edge", "C04", "user_actions/user_delete_edge.py",
  "            self.actions.append(UpdateTrackIDs(self.tracks, sibling, new_track_id))\n", "")
m("C04-no-sibling-relabel-delete-node", "C04", "user_actions/user_delete_node.py",
  "                self.actions.append(UpdateTrackIDs(tracks, sib, new_track_id))\n", "                pass\n")
m("C04-orphan-keeps-track-id", "C04", "user_actions/user_delete_edge.py",
  "            new_track_id = self.tracks.get_next_track_id()\n            new_lineage_id", "            new_track_id = self.tracks.get_track_id(edge[1])\n            new_lineage_id")
m("C04-join-does-not-relabel", "C04", "user_actions/user_add_edge.py",
  "            new_track_id = self.tracks.get_track_id(source)\n            new_lineage_id", "            new_track_id = self.tracks.get_track_id(target)\n            new_lineage_id")
m("C04-assign-tracklets-degree-gt-2", "C04", "annotators/_track_annotator.py",
  "if degree >= 2]", "if degree > 2]")
m("C04-walk-stops-before-dividing-node", "C04", "annotators/_track_annotator.py",
  "                    if self.tracks.get_track_id(node) == old_tracklet_id:",
  "                    if self.tracks.get_track_id(node) == old_tracklet_id and (self.tracks.graph.out_degree(node) < 2 or node == start_node):")
m("C05-lineage-walk-first-successor-only", "C05", "annotators/_track_annotator.py",
  "                next_nodes.extend(self.tracks.graph.successors(node))",
  "                next_nodes.extend(list(self.tracks.graph.successors(node))[:1] if not still_in_tracklet else self.tracks.graph.successors(node))")
# ----------------------------------------------------------------------------- C05
m("C05-orphan-keeps-lineage", "C05", "user_actions/user_delete_edge.py",
  "            new_lineage_id = self.tracks.get_next_lineage_id()\n", "            new_lineage_id = None\n")
m("C05-join-does-not-propagate-lineage", "C05", "user_actions/user_add_edge.py",
  "            new_lineage_id = self.tracks.get_lineage_id(source)\n", "            new_lineage_id = None\n")
m("C05-lineage-walk-stops-at-segment-end", "C05", "annotators/_track_annotator.py",
  "                # Lineage updates all downstream nodes\n                if update_lineage:", "                # Lineage updates all downstream nodes\n                if update_lineage and still_in_tracklet:")
m("C05-assign-lineage-uses-cut-graph", "C05", "annotators/_track_annotator.py",
  "        lineages = nx.weakly_connected_components(self.tracks.graph)",
  "        cut = self.tracks.graph.copy()\n        cut.remove_edges_from([e for n in cut.nodes if self.tracks.graph.out_degree(n) >= 2 for e in self.tracks.graph.out_edges(n)])\n        lineages = nx.weakly_connected_components(cut)")
m("C05-add-node-new-track-reuses-lineage", "C05", "user_actions/user_add_node.py",
  "                lineage_id = tracks.get_next_lineage_id()", "                lineage_id = tracks.track_annotator.max_lineage_id")
# ----------------------------------------------------------------------------- C06
m("C06-delete-node-skips-bookkeeping", "C06", "annotators/_track_annotator.py",
  "        if track_id is not None:\n            self._remove_from_tracklet_bookkeeping([node], track_id)", "        if track_id is not None and False:\n            self._remove_from_tracklet_bookkeeping([node], track_id)")
m("C06-max-not-raised", "C06", "annotators/_track_annotator.py",
  "        if tracklet_id > self.max_tracklet_id:\n            self.max_tracklet_id = tracklet_id", "        if tracklet_id > self.max_tracklet_id + 1:\n            self.max_tracklet_id = tracklet_id")
m("C06-new-node-ids-do-not-skip-existing", "C06", "data_model/tracks.py",
  "            while self.graph.has_node(_id):", "            while False and self.graph.has_node(_id):")
m("C06-neighbors-le", "C06", "data_model/solution_tracks.py",
  "            if self.get_time(cand) < time:", "            if self.get_time(cand) <= time:")
m("C06-has-track-id-ignores-time", "C06", "data_model/solution_tracks.py",
  "        return time in self.get_times(nodes)", "        return len(self.get_times(nodes)) > 0")
m("C06-lineage-bookkeeping-not-removed", "C06", "annotators/_track_annotator.py",
  "        if old_id is not None:\n            self._remove_from_lineage_bookkeeping(nodes, old_id)", "        if old_id is not None and old_id > new_id:\n            self._remove_from_lineage_bookkeeping(nodes, old_id)")
# ----------------------------------------------------------------------------- C07
m("C07-addnode-does-not-paint", "C07", "actions/add_delete_node.py",
  "        if self.pixels is not None:\n            self.tracks.set_pixels(self.pixels, self.node)", "        if self.pixels is not None and False:\n            self.tracks.set_pixels(self.pixels, self.node)")
m("C07-deletenode-does-not-erase", "C07", "actions/add_delete_node.py",
  "        if self.pixels is not None:\n            self.tracks.set_pixels(self.pixels, 0)", "        if self.pixels is not None and False:\n            self.tracks.set_pixels(self.pixels, 0)")
m("C07-paint-node-uses-last-group", "C07", "user_actions/user_update_segmentation.py",
  "np.concatenate([pixels[dim] for pixels, _ in updated_pixels])", "np.concatenate([pixels[dim] for pixels, _ in updated_pixels[-1:]])")
m("C07-updatenodeseg-inverse-keeps-added", "C07", "actions/update_segmentation.py",
  "            added=not self.added,", "            added=self.added,")
m("C07-get-pixels-wrong-frame", "C07", "data_model/tracks.py",
  "        loc_pixels = np.nonzero(self.segmentation[time] == node)", "        loc_pixels = np.nonzero(self.segmentation[min(time + 1, len(self.segmentation) - 1)] == node)")
# ----------------------------------------------------------------------------- C08
m("C08-incremental-no-spacing", "C08", "annotators/_regionprops_annotator.py",
  "        spacing = None if self.tracks.scale is None else tuple(self.tracks.scale[1:])\n        for region in regionprops_extended(seg_frame, spacing=spacing):",
  "        spacing = None if self.tracks.scale is None else tuple(self.tracks.scale[1:])\n        if seg_frame.max() == seg_frame.min() or len(np.unique(seg_frame)) == 2:\n            spacing = None\n        for region in regionprops_extended(seg_frame, spacing=spacing):")
m("C08-update-ignores-updatenodeseg", "C08", "annotators/_regionprops_annotator.py",
  "        if not isinstance(action, (AddNode, UpdateNodeSeg)):", "        if not isinstance(action, (AddNode,)):")
m("C08-pos-not-recomputed-on-shrink", "C08", "annotators/_regionprops_annotator.py",
  "        keys_to_compute = list(self.features.keys())\n        if not keys_to_compute:\n            return\n\n        time =",
  "        keys_to_compute = list(self.features.keys())\n        if isinstance(action, UpdateNodeSeg) and not action.added:\n            keys_to_compute = [k for k in keys_to_compute if k != self.pos_key]\n        if not keys_to_compute:\n            return\n\n        time =")
# ----------------------------------------------------------------------------- C09
m("C09-incremental-next-frame", "C09", "annotators/_edge_annotator.py",
  "            end_seg = self.tracks.segmentation[end_time]", "            end_seg = self.tracks.segmentation[start_time + 1]")
m("C09-updatenodeseg-only-out-edges", "C09", "annotators/_edge_annotator.py",
  "            edges_to_update = list(self.tracks.graph.in_edges(node)) + list(\n                self.tracks.graph.out_edges(node)\n            )", "            edges_to_update = list(self.tracks.graph.out_edges(node))")
m("C09-bulk-t-plus-1", "C09", "annotators/_edge_annotator.py",
  "                self._iou_update(edges, seg[source_time], seg[target_time])", "                self._iou_update(edges, seg[source_time], seg[source_time + 1])")
# ----------------------------------------------------------------------------- C10
m("C10-disable-leaves-registry-entry", "C10", "data_model/tracks.py",
  "            if key in self.features:\n                del self.features[key]", "            if key in self.features and key == 'area':\n                del self.features[key]")
m("C10-enable-skips-compute", "C10", "data_model/tracks.py",
  "        if recompute:\n            self.annotators.compute(feature_keys)", "        if recompute and len(feature_keys) > 1:\n            self.annotators.compute(feature_keys)")
m("C10-update-uses-all-features", "C10", "annotators/_regionprops_annotator.py",
  "        keys_to_compute = list(self.features.keys())\n        if not keys_to_compute:\n            return\n\n        time =", "        keys_to_compute = list(self.all_features.keys())\n        if not keys_to_compute:\n            return\n\n        time =")
m("C10-protected-only-active", "C10", "actions/update_node_attrs.py",
  "        protected_attrs = set(tracks.annotators.all_features.keys())", "        protected_attrs = set(tracks.annotators.features.keys())")
m("C10-activate-before-validate", "C10", "annotators/_annotator_registry.py",
  "        # Validate first - fail before making any changes\n        available = self.all_features\n        not_found = [k for k in keys if k not in available]\n        if not_found:\n            raise KeyError(f\"Features not available: {not_found}\")\n\n        # All features exist - proceed with activating\n        for annotator in self:\n            annotator.activate_features(keys)",
  "        for annotator in self:\n            annotator.activate_features(keys)\n        available = self.all_features\n        not_found = [k for k in keys if k not in available]\n        if not_found:\n            raise KeyError(f\"Features not available: {not_found}\")")
# ----------------------------------------------------------------------------- C11
m("C11-revert-D4-validate-after-removal", "C11", "user_actions/user_add_edge.py",
  "        if out_degree_source > 1:\n            raise InvalidActionError(\n                f\"Expected degree of 0 or 1 before adding edge, got {out_degree_source}\"\n            )\n\n        # Check if making a merge.",
  "        # Check if making a merge.")
m("C11-revert-D5-no-rollback", "C11", "user_actions/user_update_segmentation.py",
  "            for action in reversed(self.actions):\n                action.inverse()\n            raise", "            raise")
# (reverting D8 alone became equivalent under C11 once D14's rollback covered every AddNode failure)
m("C11-swap-validates-after-breaking", "C11", "user_actions/_user_swap_predecessors.py",
  "        if pred2 is not None:\n            pred2_time = tracks.get_time(pred2)\n            if pred2_time >= time1:", "        if pred2 is not None and False:\n            pred2_time = tracks.get_time(pred2)\n            if pred2_time >= time1:")
# ----------------------------------------------------------------------------- C14
m("C14-split-position-swaps-yx", "C14", "import_export/geff/_export.py",
  "                attrs[new_keys[i]] = pos[i]", "                attrs[new_keys[i]] = pos[len(new_keys) - 1 - i] if len(new_keys) == 2 else pos[i]")
m("C14-combine-multi-value-reversed", "C14", "import_export/_tracks_builder.py",
  "            col_arrays = [props[c][\"values\"] for c in source_cols]", "            col_arrays = [props[c][\"values\"] for c in reversed(source_cols)]")
m("C14-dump-json-omits-lineage-key", "C14", "features/_feature_dict.py",
  "                \"lineage_key\": self.lineage_key,\n", "")
m("C14-csv-parent-is-first-successor", "C14", "import_export/csv/_export.py",
  "        parents = list(tracks.graph.predecessors(node_id))", "        parents = list(tracks.graph.predecessors(node_id)) if tracks.graph.out_degree(node_id) < 2 else list(tracks.graph.successors(node_id))")
m("C14-geff-seg-cast-uint8", "C14", "import_export/geff/_export.py",
  "            z[:] = seg_data", "            z[:] = seg_data.astype(np.uint8)")
m("C14-save-scale-as-ints", "C14", "import_export/internal_format.py",
  "        \"scale\": tracks.scale\n        if not isinstance(tracks.scale, np.ndarray)", "        \"scale\": [int(s) for s in tracks.scale] if tracks.scale is not None and not isinstance(tracks.scale, np.ndarray) else tracks.scale\n        if not isinstance(tracks.scale, np.ndarray)")
# ----------------------------------------------------------------------------- C15
m("C15-no-ancestor-closure", "C15", "import_export/_utils.py",
  "        all_nodes_to_keep.update(ancestors)", "        pass")
m("C15-descendants-instead-of-ancestors", "C15", "import_export/_utils.py",
  "        ancestors = nx.ancestors(graph, node)", "        ancestors = nx.descendants(graph, node)")
m("C15-geff-seg-unfiltered", "C15", "import_export/geff/_export.py",
  "                filtered = np.where(mask, block, 0)", "                filtered = block")
m("C15-ancestors-one-level", "C15", "import_export/_utils.py",
  "        ancestors = nx.ancestors(graph, node)", "        ancestors = set(graph.predecessors(node))")
# ----------------------------------------------------------------------------- C16
m("C16-split-position-on-live-graph", "C16", "import_export/geff/_export.py",
  "        new_graph = tracks.graph.copy()", "        new_graph = tracks.graph.copy(as_view=False) if tracks.ndim == 4 else tracks.graph")
m("C16-revert-D6-scale-assignment", "C16", "import_export/geff/_export.py",
  "    axis_scales = tracks.scale if tracks.scale is not None else (1.0,) * tracks.ndim", "    if tracks.scale is None:\n        tracks.scale = (1.0,) * tracks.ndim\n    axis_scales = tracks.scale")
m("C16-csv-names-setdefault-display-name", "C16", "import_export/csv/_export.py",
  "                names = feature_dict.get(\"display_name\", feature_name)\n                header.extend([names])",
  "                names = feature_dict.setdefault(\"display_name\", feature_name)\n                header.extend([names])")
m("C16-save-attrs-converts-scale-in-place", "C16", "import_export/internal_format.py",
  "    out_path = directory / ATTRS_FILE\n    attrs_dict = {", "    out_path = directory / ATTRS_FILE\n    if tracks.scale is not None:\n        tracks.scale = [float(s) for s in tracks.scale][: tracks.ndim - 1] + [1.0]\n    attrs_dict = {")
# ----------------------------------------------------------------------------- C20
m("C20-no-emit-delete-node", "C20", "user_actions/user_delete_node.py",
  "            self.tracks.action_history.add_new_action(self)\n            self.tracks.refresh.emit()", "            self.tracks.action_history.add_new_action(self)")
m("C20-nested-emits", "C20", "user_actions/user_delete_edge.py",
  "        if _top_level:\n            self.tracks.action_history.add_new_action(self)\n            self.tracks.refresh.emit()", "        if _top_level:\n            self.tracks.action_history.add_new_action(self)\n        self.tracks.refresh.emit()")
m("C20-undo-emits-before-check", "C20", "data_model/tracks.py",
  "        if self.action_history.undo():\n            self.refresh.emit()\n            return True\n        return False", "        self.refresh.emit()\n        if self.action_history.undo():\n            return True\n        return False")
m("C20-add-node-emits-without-node", "C20", "user_actions/user_add_node.py",
  "            self.tracks.refresh.emit(node)", "            self.tracks.refresh.emit()")
# ----------------------------------------------------------------------------- reverts of repairs
m("C11-revert-D11-time-check-after-subedits", "C11", "user_actions/user_update_segmentation.py",
  "            assert len(np.unique(times)) == 1, \"Can only update one time point at a time\"\n        try:",
  "            pass\n        try:")
# (reverting D12 alone is equivalent under C11 since D14's rollback also covers the overflow path)
m("C11-revert-D14-no-rollback-in-add-node", "C11", "user_actions/user_add_node.py",
  "            for action in reversed(self.actions):\n                action.inverse()\n            raise", "            raise")
m("C04-revert-D13-from-tracks-enables-only-on-recompute", "C04", "data_model/solution_tracks.py",
  "        soln_tracks.enable_features(id_keys, recompute=force_recompute)", "        if force_recompute:\n            soln_tracks.enable_features(id_keys, recompute=force_recompute)")
# (the revert of D10 - undo stores None instead of removing the attribute - stopped being a
# break of C14 with the D27 repair: the GEFF exporter now leaves None-valued attributes out)
m("C05-revert-D2-delete-division-edge-keeps-lineage", "C05", "user_actions/user_delete_edge.py",
  "                    self.tracks.get_track_id(edge[1]),\n                    self.tracks.get_next_lineage_id(),", "                    self.tracks.get_track_id(edge[1]),\n                    None,")
m("C05-revert-D2-new-division-keeps-lineage", "C05", "user_actions/user_add_edge.py",
  "                    self.tracks.get_track_id(target),\n                    self.tracks.get_lineage_id(source),", "                    self.tracks.get_track_id(target),\n                    None,")
m("C05-revert-D2-delete-node-keeps-lineage", "C05", "user_actions/user_delete_node.py",
  "                    self.tracks.get_track_id(succ),\n                    self.tracks.get_next_lineage_id(),", "                    self.tracks.get_track_id(succ),\n                    None,")
# (filed under C14 since D18: with every attribute captured on deletion the unregistered
# per-axis keys no longer break inversion; they still break the internal-format round trip)
m("C14-revert-D9-per-axis-features-unregistered", "C14", "data_model/tracks.py",
  "                    feature_dict[attr] = {", "                    features[attr] = {")
# (the revert of D15 - attributes dict not copied - is no longer a break of C05: after the
# D24 repair a stale lineage id left in a reused dict is reconciled like any supplied one)
m("C05-revert-D24-supplied-lineage-id-trusted", "C05", "user_actions/user_add_node.py",
  "        if lineage_key is not None:\n            given = attributes.get(lineage_key)", "        if lineage_key is not None and lineage_key not in attributes:\n            given = attributes.get(lineage_key)")
m("C11-revert-D18-delete-node-saves-registered-only", "C11", "actions/add_delete_node.py",
  "            for key, val in self.tracks.graph.nodes[node].items()\n            if val is not None",
  "            for key, val in self.tracks.graph.nodes[node].items()\n            if val is not None and key in self.tracks.features.node_features")
m("C11-revert-D19-no-rollback-in-delete-node", "C11", "user_actions/user_delete_node.py",
  "            for action in reversed(self.actions):\n                action.inverse()\n            raise", "            raise")
m("C16-revert-D20-sort-in-place", "C16", "data_model/solution_tracks.py",
  "        candidates = sorted(\n            annotator.tracklet_id_to_nodes[track_id], key=lambda n: self.get_time(n)\n        )",
  "        candidates = annotator.tracklet_id_to_nodes[track_id]\n        candidates.sort(key=lambda n: self.get_time(n))")
m("C11-revert-D22-no-restore-in-update-attrs", "C11", "actions/update_node_attrs.py",
  "            for attr, value in self.prev_attrs.items():\n                self._set(attr, value)\n            raise", "            raise")
m("C14-load-memory-maps-the-saved-segmentation", "C14", "import_export/internal_format.py",
  "        return np.load(seg_file)", "        return np.load(seg_file, mmap_mode=\"r+\")")
m("C15-revert-D25-track-id-column-by-literal-name", "C15", "import_export/csv/_export.py",
  "            if feature_name == tracks.features.tracklet_key:\n", "            if False:\n")
m("C15-revert-D26-zero-rows-no-header", "C15", "import_export/csv/_export.py",
  "    df = pd.DataFrame(rows, columns=header)\n", "    df = pd.DataFrame(rows)\n    df = df[header]\n")
m("C14-revert-D26-zero-rows-no-header", "C14", "import_export/csv/_export.py",
  "    df = pd.DataFrame(rows, columns=header)\n", "    df = pd.DataFrame(rows)\n    df = df[header]\n")
m("C14-revert-D27-none-valued-attributes-not-left-out", "C14", "import_export/geff/_export.py",
  "    if any(value is None for attrs in attr_dicts for value in attrs.values()):", "    if False:")
m("C16-D27-none-valued-attributes-stripped-on-the-live-graph", "C16", "import_export/geff/_export.py",
  "        if graph is tracks.graph:\n            graph = graph.copy()\n", "")
m("C14-revert-D29-frame-index-scaled-by-time-scale", "C14", "import_export/_validation.py",
  "    scale = [1.0, *scale[1:]]\n", "")
m("C11-revert-D28-half-added-node-stays", "C11", "actions/add_delete_node.py",
  "            self.tracks.graph.remove_node(self.node)\n            if self.pixels is not None:\n                self.tracks.set_pixels(self.pixels, 0)\n            raise", "            raise")
m("C15-revert-D30-ndarray-position-refused-by-display-names-export", "C15", "import_export/csv/_export.py",
  "                    assert isinstance(value, (list, tuple, np.ndarray))", "                    assert isinstance(value, (list, tuple))")
m("C07-revert-D31-updatenodeseg-keeps-callers-arrays", "C07", "actions/update_segmentation.py",
  "        self.pixels = tuple(np.array(p) for p in pixels)", "        self.pixels = pixels")
m("C11-revert-D32-entries-with-the-same-old-value-not-gathered", "C11", "user_actions/user_update_segmentation.py",
  "            groups.setdefault(old_value, []).append(pixels)", "            groups.setdefault(len(groups), []).append(pixels)")
# (D33 is repaired at two sites - UserAddNode's and AddNode's position check - either of
# which refuses the request before anything is applied, so no one-replacement revert of it
# is a break; the findings/D33-*.json replays guard the pair)
