"""Persistence operations inside sessions: save / export / re-import / crash-restart in
three formats, with I/O fault injection at the disk seam; oracles of C14, C15, C16."""
from __future__ import annotations

import hashlib

import os
import shutil
from pathlib import Path

import networkx as nx
import numpy as np

from . import env, observe, oracles
from .seams import DiskSeam, InjectedOSError, quiesce_io
from .sim import StepTimeout


def _axes(ndim):
    return ["z", "y", "x"] if ndim == 4 else ["y", "x"]


class IO:
    def __init__(self, case: dict):
        self.root = Path(env.SCRATCH_ROOT) / f"funtracks-dst-{os.getpid()}-{case.get('run_seed', 0) & 0xFFFFFFFF:x}"
        if self.root.exists():
            shutil.rmtree(self.root, ignore_errors=True)
        self.root.mkdir(parents=True)
        self.n = 0

    def cleanup(self):
        shutil.rmtree(self.root, ignore_errors=True)

    def fresh(self, name) -> Path:
        self.n += 1
        d = self.root / f"{self.n:03d}-{name}"
        d.mkdir()
        return d

    # ------------------------------------------------------------------ helpers
    @staticmethod
    def exportable(sim, fmt=None) -> bool:
        tr = sim.tracks
        if tr.graph.number_of_nodes() == 0:
            return False
        feats = tr.annotators.features
        if fmt == "internal":
            # the internal format also has to round-trip a registry in which managed
            # features are switched off; only what the comparison itself reads is required
            return tr.features.tracklet_key in feats
        if tr.features.tracklet_key not in feats or tr.features.lineage_key not in feats:
            return False
        pk = tr.features.position_key
        if tr.segmentation is not None and (pk not in feats or "area" not in feats):
            return False
        return True

    def _write(self, sim, fmt, d: Path, subset=None, overwrite=False):
        """The library call under test (write side). Returns description of what was written."""
        from funtracks.import_export import export_to_csv, export_to_geff, save_tracks

        tr = sim.tracks
        if fmt == "internal":
            save_tracks(tr, d / "tracks")
        elif fmt == "csv":
            export_to_csv(tr, d / "tracks.csv", node_ids=subset)
        elif fmt == "csv_names":
            export_to_csv(tr, d / "tracks.csv", node_ids=subset, use_display_names=True)
        elif fmt == "csv_colors":
            # the optional colour column: one RGBA per node
            colors = {n: [((int(n) * 37) % 256) / 255, ((int(n) * 91) % 256) / 255, 0.5, 1.0] for n in tr.graph.nodes}
            export_to_csv(tr, d / "tracks.csv", node_ids=subset, color_dict=colors)
        elif fmt == "csv_names_tif":
            if tr.segmentation is not None:
                export_to_csv(tr, d / "tracks.csv", node_ids=subset, use_display_names=True, export_seg=True, seg_path=d / "seg.tif")
            else:
                export_to_csv(tr, d / "tracks.csv", node_ids=subset, use_display_names=True)
        elif fmt == "csv_tif":
            if tr.segmentation is not None:
                export_to_csv(tr, d / "tracks.csv", node_ids=subset, export_seg=True, seg_path=d / "seg.tif")
            else:
                export_to_csv(tr, d / "tracks.csv", node_ids=subset)
        elif fmt in ("geff2", "geff3"):
            if overwrite == "existing":
                export_to_geff(tr, d / "store.zarr", overwrite=True, node_ids=subset, zarr_format=int(fmt[-1]))
            elif overwrite:
                # overwrite into a non-empty store: write once, then again with overwrite
                export_to_geff(tr, d / "store.zarr", node_ids=subset, zarr_format=int(fmt[-1]))
                export_to_geff(tr, d / "store.zarr", overwrite=True, node_ids=subset, zarr_format=int(fmt[-1]))
            else:
                export_to_geff(tr, d / "store.zarr", node_ids=subset, zarr_format=int(fmt[-1]))
        else:
            raise ValueError(fmt)

    def _read(self, sim, fmt, d: Path, with_pos=True, feat=None):
        """The library call under test (read side): rebuild a SolutionTracks from files."""
        import pandas as pd

        from funtracks.import_export import import_from_geff, load_tracks, tracks_from_df

        tr = sim.tracks
        ndim = tr.ndim
        if fmt == "internal":
            return load_tracks(d / "tracks", solution=True)
        if fmt in ("csv", "csv_tif"):
            df = pd.read_csv(d / "tracks.csv", float_precision="round_trip")
            nm = {"time": "t", "pos": _axes(ndim), "id": "id", "parent_id": "parent_id", "track_id": "track_id"}
            return tracks_from_df(df, scale=None if tr.scale is None else list(tr.scale), node_name_map=nm)
        if fmt == "csv_names":
            df = pd.read_csv(d / "tracks.csv", float_precision="round_trip")
            nm = {"id": "ID", "parent_id": "Parent ID"}
            for key, feat in tr.features.items():
                if feat["feature_type"] != "node":
                    continue
                nv = feat.get("num_values", 1)
                if nv > 1:
                    names = list(feat["value_names"]) if feat.get("value_names") is not None else [f"{feat.get('display_name', key)}_{i}" for i in range(nv)]
                    cols = names
                else:
                    cols = feat.get("display_name", key)
                std = key
                if key == tr.features.time_key:
                    std = "time"
                elif key == tr.features.position_key:
                    std = "pos"
                elif key == tr.features.tracklet_key:
                    std = "track_id"
                elif key == tr.features.lineage_key:
                    std = "lineage_id"
                elif isinstance(tr.features.position_key, list) and key in tr.features.position_key:
                    continue
                if std == "score":
                    continue
                nm[std] = cols
            if isinstance(tr.features.position_key, list):
                nm["pos"] = [tr.features[k].get("display_name", k) for k in tr.features.position_key]
            return tracks_from_df(df, scale=None if tr.scale is None else list(tr.scale), node_name_map=nm)
        if fmt in ("geff2", "geff3"):
            store = d / "store.zarr"
            nm = {"time": tr.features.time_key, "track_id": tr.features.tracklet_key, "lineage_id": tr.features.lineage_key}
            if with_pos or tr.segmentation is None:
                pk = tr.features.position_key
                nm["pos"] = list(pk) if isinstance(pk, list) else _axes(ndim)
            for key, feat in tr.features.items():
                if feat["feature_type"] == "node" and key not in (tr.features.time_key, tr.features.tracklet_key, tr.features.lineage_key, tr.features.position_key) and not (isinstance(tr.features.position_key, list) and key in tr.features.position_key):
                    if key == "score" and not any(dd.get("score") is not None for _, dd in tr.graph.nodes(data=True)):
                        continue
                    nm[key] = key
            kw = {}
            self.requested = set()
            if feat and tr.segmentation is not None:
                # the client asks the importer to keep the optional measurements it has
                # switched on: taken from the file ("load") or computed again ("recompute")
                nf = {k: feat == "recompute" for k in ("circularity", "perimeter") if k in sim.model_active and k in tr.features}
                ef = {"iou": feat == "recompute"} if "iou" in sim.model_active and "iou" in tr.features and tr.graph.number_of_edges() else {}
                if nf:
                    kw["node_features"] = nf
                if ef:
                    kw["edge_features"] = ef
                self.requested = set(nf) | set(ef)
            return import_from_geff(
                store / "tracks", node_name_map=nm,
                segmentation_path=(store / "segmentation") if tr.segmentation is not None else None,
                scale=None if tr.scale is None else list(tr.scale), **kw,
            )
        raise ValueError(fmt)

    def _armed(self, sim, op, d, fn, side):
        """Run fn under the seam; with op['fault'] run a fault-free twin first to size k."""
        fault = op.get("fault")
        spec = None
        if fault and fault.get("side", "w") == side:
            twin = d if side == "r" else self.fresh("twin")
            try:
                with DiskSeam(twin) as s0:
                    fn(twin)
            except Exception:  # noqa: BLE001 - twin failing is the fault-free path's business
                return None, None, "twin_failed"
            n = s0.counts.get(fault["kind"], 0)
            if side == "r":
                pass
            if n:
                spec = {"kind": fault["kind"], "k": 1 + fault["k"] % n, "mode": "r" if side == "r" else "w"}
        seam = DiskSeam(d, spec)
        exc = None
        val = None
        try:
            with seam:
                val = fn(d)
        except StepTimeout:
            raise
        except BaseException as e:  # noqa: BLE001
            exc = e
        quiesce_io()
        if seam.fired:
            sim.count("io_fault_" + seam.fired[0])
        return val, exc, seam

    def _subset(self, sim, op):
        spec = op.get("subset")
        if not spec:
            return None
        if isinstance(spec, str):
            # group selections (large subsets)
            g = sim.tracks.graph
            sim.count("io_subset_" + spec)
            nodes = sorted(g.nodes)
            if spec == "none":
                return set()  # the empty selection: zero rows, all-background segmentation
            if spec == "all":
                out = set(nodes)
            elif spec == "leaves":
                out = {n for n in nodes if g.out_degree(n) == 0}
            elif spec == "roots":
                out = {n for n in nodes if g.in_degree(n) == 0}
            elif spec == "not_roots":
                out = {n for n in nodes if g.in_degree(n) > 0}
            elif spec == "odd":
                out = set(nodes[1::2])
            else:  # last_frame
                tk = sim.tracks.features.time_key
                tmax = max((g.nodes[n][tk] for n in nodes), default=None)
                out = {n for n in nodes if g.nodes[n][tk] == tmax}
            return out or None
        cl = sim.node_classes()
        out = set()
        for sel in spec:
            n = sim.pick_node(sel, cl)
            if n is not None:
                out.add(n)
                sim.count("io_subset_" + sel[0])
        return out or None

    # ------------------------------------------------------------------ ops
    def op_save(self, sim, op):
        return self._export_like(sim, dict(op, fmt="internal"), kind="save")

    def op_export(self, sim, op):
        return self._export_like(sim, op, kind="export")

    def _export_like(self, sim, op, kind):
        if not self.exportable(sim, op.get("fmt")):
            return None
        tr = sim.tracks
        fmt = op["fmt"]
        subset = self._subset(sim, op) if kind == "export" else None
        if op.get("sweep"):
            return self._sweep(sim, op, fmt, subset, kind)
        if sim.seg_ref is None and tr.segmentation is not None and sim.active("C15"):
            sim.seg_ref = np.array(tr.segmentation, copy=True)
        reuse = kind == "save" and op.get("reuse_dir") and sim.saves.get("internal") and not op.get("fault")
        fam = "geff" if fmt.startswith("geff") else "csv"
        prev = sim.exports.get(fam) if kind == "export" and op.get("into_prev") and not op.get("fault") else None
        if prev is not None and op["into_prev"] == "refuse" and fmt.startswith("geff"):
            return self._refused_reexport(sim, op, fmt, prev, subset)
        overwrite = op.get("overwrite", False)
        if reuse:
            d = sim.saves["internal"]["dir"]
            sim.count("io_save_into_same_dir")
        elif prev is not None:
            # export again to the paths of the previous export of this format: CSV and tif
            # are replaced, GEFF with overwrite=True; nothing of the older export may survive
            d = prev
            overwrite = "existing"
            sim.count("io_export_replaces_previous")
        else:
            d = self.fresh(f"{kind}-{fmt}")
        pre = sim.pre["deep"] if sim.pre.get("deep") is not None else observe.deep(tr, len(sim.emissions))
        _, exc, seam = self._armed(sim, op, d, lambda dd: self._write(sim, fmt, dd, subset, overwrite), "w")
        if seam == "twin_failed":
            return None
        out = {"resolved": {"fmt": fmt, "subset": None if subset is None else sorted(subset)}, "tags": [fmt] + ([] if subset is None else ["subset"] if subset else ["subset", "empty_selection"]) + (["pos_disabled"] if fmt == "internal" and tr.segmentation is not None and tr.features.position_key not in tr.annotators.features else []), "io": None if (seam is None or not seam.fired) else list(seam.fired[:2])}
        injected = isinstance(exc, InjectedOSError) or (exc is not None and seam.fired is not None and isinstance(exc, OSError))
        if exc is None:
            out["cls"] = "accepted"
            sim.count(f"io_{fmt}_ok")
        elif injected or (seam.fired is not None):
            out["cls"] = "io_failed"
            out["exc"] = type(exc).__name__
        else:
            out["cls"] = "crash"
            out["exc"] = type(exc).__name__
            out["msg"] = str(exc)[:300]
        # C16: the object is unchanged whether the export succeeded or failed
        if sim.active("C16"):
            dd = observe.deep_diff(pre, observe.deep(tr, len(sim.emissions)), ignore=("counters",))
            if dd:
                oracle = "C16.export" if exc is None else "C16.export_failed"
                sim.violate("C16", oracle, f"{kind} {fmt}{' (failed with injected I/O error)' if exc is not None else ''} changed {dd[:2]}", op, out["tags"])
                return out
            sim.stat("C16.eval")
            sim.case(kind, fmt, bool(subset), None if not seam.fired else seam.fired[0], observe.shape_hash(tr))
        if out["cls"] == "crash":
            if sim.active("C15") and subset is not None:
                sim.violate("C15", "C15.raises", f"{kind} {fmt} of subset {sorted(subset)[:8]} raised {out['exc']}: {out.get('msg')}", op, out["tags"], out["exc"])
                return out
            if sim.active("C14"):
                chan = "internal" if fmt == "internal" else ("csv" if fmt.startswith("csv") else "geff")
                sim.violate("C14", f"C14.{chan}.raises", f"{kind} {fmt} raised {out['exc']}: {out.get('msg')}", op, out["tags"], out["exc"])
                return out
            sim.guard("export_crash", f"{fmt} {out['exc']} {out.get('msg')}")
        if out["cls"] == "accepted" and kind == "export" and seam.fired is None:
            sim.exports[fam] = d
            sim.export_digest[fam] = self._files_digest(d)
            if prev is not None and subset is None and sim.active("C14") and fmt in ("csv", "csv_tif", "geff2", "geff3"):
                self._roundtrip_compare(sim, op, "csv" if fmt == "csv_tif" else fmt, d, out, with_pos=not (fmt.startswith("geff") and self._d7_predicate(tr)), why="after exporting again to the same paths")
                if sim.violations:
                    return out
        if out["cls"] == "accepted":
            if reuse and sim.active("C14"):
                # the second save into a directory must replace everything the first one wrote
                self._roundtrip_compare(sim, op, fmt, d, out, with_pos=True, why="after saving again into the same directory")
                if sim.violations:
                    return out
            if kind == "save" and seam.fired is None:
                self._remember(sim, fmt, d)
            if sim.active("C15") and subset is not None:
                self._check_subset(sim, op, fmt, d, subset, out)
            if seam.fired is not None and sim.active("C14"):
                # a write error was swallowed: the round trip must still hold
                self._roundtrip_compare(sim, op, fmt, d, out, with_pos=True, why="after a swallowed write error")
        return out

    def _sweep(self, sim, op, fmt, subset, kind, cap=80):
        """Single-fault sweep: fail every k-th call of every kind of this one export on this
        state (strided down to `cap` positions). The object must stay unchanged each time
        (C16); an export that returns normally although a write failed must still
        round-trip (C14)."""
        tr = sim.tracks
        twin = self.fresh("sweep-twin")
        try:
            with DiskSeam(twin) as s0:
                self._write(sim, fmt, twin, subset, op.get("overwrite", False))
        except StepTimeout:
            raise
        except Exception:  # noqa: BLE001
            return None
        shutil.rmtree(twin, ignore_errors=True)
        positions = [(fk, k) for fk in ("open", "write", "mkdir", "replace", "link", "unlink") for k in range(1, s0.counts.get(fk, 0) + 1)]
        stride = max(1, -(-len(positions) // cap))
        positions = positions[::stride]
        pre = observe.deep(tr, len(sim.emissions))
        out = {"resolved": {"fmt": fmt, "sweep": len(positions)}, "tags": [fmt, "sweep"], "cls": "returned", "io": None}
        raised = swallowed = 0
        for fk, k in positions:
            d = self.fresh("sweep")
            seam = DiskSeam(d, {"kind": fk, "k": k, "mode": "w"})
            exc = None
            try:
                with seam:
                    self._write(sim, fmt, d, subset, op.get("overwrite", False))
            except StepTimeout:
                raise
            except BaseException as e:  # noqa: BLE001
                exc = e
            quiesce_io()
            if seam.fired:
                sim.count("io_fault_" + fk)
            if sim.active("C16"):
                dd = observe.deep_diff(pre, observe.deep(tr, len(sim.emissions)), ignore=("counters",))
                if dd:
                    sim.violate("C16", "C16.export_failed" if exc is not None else "C16.export", f"{kind} {fmt} with {fk} #{k} failing changed {dd[:2]}", op, out["tags"] + [fk])
                    return out
                sim.stat("C16.eval")
                sim.case(kind, fmt, bool(subset), fk, k, observe.shape_hash(tr))
            if exc is None and seam.fired:
                swallowed += 1
                if sim.active("C14") and subset is None:
                    self._roundtrip_compare(sim, op, fmt, d, out, with_pos=not self._d7_predicate(tr), why=f"after a swallowed {fk} #{k} error")
                    if sim.violations:
                        return out
            elif exc is not None:
                raised += 1
                if not isinstance(exc, OSError) and sim.active("C14"):
                    sim.count("io_fault_surfaced_as_" + type(exc).__name__)
            shutil.rmtree(d, ignore_errors=True)
        sim.count("io_sweeps")
        sim.count("io_sweep_positions", len(positions))
        sim.count("io_sweep_raised", raised)
        sim.count("io_sweep_swallowed", swallowed)
        out["resolved"].update(raised=raised, swallowed=swallowed)
        return out

    def op_reimport(self, sim, op):
        empty = sim.tracks.graph.number_of_nodes() == 0
        if not self.exportable(sim, op.get("fmt")) and not (empty and op.get("allow_empty")):
            return None
        tr = sim.tracks
        fmt = op["fmt"]
        if fmt == "csv_names" and sim.opts.get("tier") != "thorough":
            fmt = "csv"
        d = self.fresh(f"reimport-{fmt}")
        wp = op.get("with_pos", True)
        pos_off = tr.segmentation is not None and tr.features.position_key not in tr.annotators.features
        out = {"resolved": {"fmt": fmt, "with_pos": wp}, "tags": [fmt] + ([] if wp else ["no_pos_map"]) + (["empty_solution"] if empty else []) + (["pos_disabled"] if pos_off else [])}
        _, exc, seam = self._armed(sim, op, d, lambda dd: self._write(sim, fmt, dd), "w")
        if seam == "twin_failed":
            return None
        if exc is not None:
            if seam.fired is not None:
                out["cls"] = "io_failed"
                out["exc"] = type(exc).__name__
                return out
            if sim.active("C14"):
                chan = "internal" if fmt == "internal" else ("csv" if fmt.startswith("csv") else "geff")
                sim.violate("C14", f"C14.{chan}.raises", f"export {fmt} raised {type(exc).__name__}: {str(exc)[:200]}", op, out["tags"], type(exc).__name__)
                out["cls"] = "crash"
                return out
            sim.guard("export_crash", f"{fmt} {type(exc).__name__} {exc}")
        out["cls"] = "accepted"
        sim.count(f"io_{fmt}_ok")
        if sim.active("C14"):
            self._roundtrip_compare(sim, op, fmt, d, out, with_pos=wp)
        return out

    def _d7_predicate(self, tr) -> bool:
        """The import validation probes one pixel: the truncated, unscaled centroid of the
        last node in graph order. Known finding D7 applies iff that pixel is not the node's."""
        if tr.segmentation is None or tr.graph.number_of_nodes() == 0:
            return False
        n = list(tr.graph.nodes)[-1]
        d = tr.graph.nodes[n]
        pos = d.get(tr.features.position_key)
        if pos is None:
            return False
        scale = [1.0] * tr.ndim if tr.scale is None else list(tr.scale)
        scale[0] = 1.0  # the frame index is never stored scaled (D29)
        coord = [int(d[tr.features.time_key])] + list(pos)
        try:
            px = tuple(int(c * (1 / s)) for c, s in zip(coord, scale))
            return int(tr.segmentation[px]) != n
        except (IndexError, ValueError):
            return True

    def _roundtrip_compare(self, sim, op, fmt, d, out, with_pos=True, why=""):
        tr = sim.tracks
        chan = "internal" if fmt == "internal" else ("csv" if fmt.startswith("csv") else "geff")
        fault = op.get("fault")
        ref = None
        try:
            ref = self._read(sim, fmt, d, with_pos)
        except StepTimeout:
            raise
        except Exception as e:  # noqa: BLE001
            if chan == "geff" and with_pos and isinstance(e, ValueError) and "Error testing seg id" in str(e):
                tags = list(out["tags"]) + (["last_node_centroid_off_mask"] if self._d7_predicate(tr) else [])
                sim.count("io_d7_predicate")
                sim.violate("C14", "C14.geff.raises", f"re-import of a GEFF export raised ValueError: {str(e)[:160]}", op, tags, "ValueError")
                return
            sim.violate("C14", f"C14.{chan}.raises", f"re-import of the {fmt} export {why} raised {type(e).__name__}: {str(e)[:300]}", op, out["tags"], type(e).__name__)
            return
        res = compare_tracks(tr, ref, chan, fmt, with_pos)
        for o, m in res:
            sim.violate("C14", o, f"{fmt} round trip {why}: {m}", op, out["tags"])
            return
        sim.stat("C14.eval")
        g = tr.graph
        tk = tr.features.time_key
        nontrivial = any(g.out_degree(n) >= 2 for n in g.nodes) or any(g.nodes[v][tk] - g.nodes[u][tk] > 1 for u, v in g.edges)
        if nontrivial:
            sim.case(fmt, with_pos, sim.world["pos_mode"], sim.world["seg"], sim.world["scale"] is None, observe.shape_hash(tr))
        # read-side fault: the import may fail, it may never hand back different data
        if fault and fault.get("side") == "r":
            got, exc, seam = self._armed(sim, op, d, lambda dd: self._read(sim, fmt, dd, with_pos), "r")
            if seam in (None, "twin_failed") or seam.fired is None:
                return
            if exc is None:
                res = compare_tracks(tr, got, chan, fmt, with_pos)
                for o, m in res:
                    sim.violate("C14", o, f"{fmt} import under an injected read error returned different data: {m}", op, out["tags"] + ["read_fault"])
                    return
                sim.count("io_read_fault_survived")
            else:
                sim.count("io_read_fault_raised")
            sim.stat("C14.eval")

    def op_restart(self, sim, op):
        """Crash-restart: acknowledged save, drop the object, rebuild from the files only."""
        if sim.restarts >= 2:
            return None
        if op.get("fmt") in ("from_tracks", "featuredict"):
            return self._rebuild_in_memory(sim, op)
        if op.get("late") and sim.saves.get("internal"):
            return self._late_restart(sim, op)
        if not self.exportable(sim, op.get("fmt")):
            return None
        fmt = op["fmt"]
        tr = sim.tracks
        d = self.fresh(f"restart-{fmt}")
        pos_off = tr.segmentation is not None and tr.features.position_key not in tr.annotators.features
        out = {"resolved": {"fmt": fmt}, "tags": [fmt] + (["pos_disabled"] if pos_off else [])}
        try:
            self._write(sim, fmt, d)
            self.requested = set()
            if fmt.startswith("geff") and self._d7_predicate(tr):
                new = self._read(sim, fmt, d, with_pos=False, feat=op.get("feat"))
            else:
                new = self._read(sim, fmt, d, with_pos=True, feat=op.get("feat"))
        except StepTimeout:
            raise
        except Exception as e:  # noqa: BLE001
            if sim.active("C14"):
                chan = "internal" if fmt == "internal" else ("csv" if fmt.startswith("csv") else "geff")
                sim.violate("C14", f"C14.{chan}.raises", f"restart from {fmt}: save or re-import raised {type(e).__name__}: {str(e)[:200]}", op, out["tags"], type(e).__name__)
                return out
            sim.guard("restart_failed", f"{fmt} {type(e).__name__} {str(e)[:120]}")
        if sim.active("C14"):
            chan = "internal" if fmt == "internal" else ("csv" if fmt.startswith("csv") else "geff")
            for o, m in compare_tracks(tr, new, chan, fmt, True):
                sim.violate("C14", o, f"restart from {fmt}: {m}", op, out["tags"])
                return out
            sim.stat("C14.eval")
        sim.adopt(new, same_keys=(fmt == "internal"))
        if self.requested:
            # what the client asked the importer to switch on is on, by the client's account
            sim.model_active |= self.requested
            sim.count("io_restart_with_requested_features")
        sim.count("io_restart_" + ("geff" if fmt.startswith("geff") else fmt))
        if fmt == "internal":
            self._remember(sim, fmt, d, new)
        out["cls"] = "accepted"
        return out

    def _rebuild_in_memory(self, sim, op):
        """The client converts its object into a new one without going through files -
        SolutionTracks.from_tracks(tracks), or the constructor with the old object's graph,
        array and feature registry - drops the old one and continues on the new one: same
        state, rebuilt lookups, an empty history."""
        from funtracks.data_model import SolutionTracks

        tr = sim.tracks
        if tr.features.tracklet_key not in tr.annotators.features:
            return None
        fmt = op["fmt"]
        out = {"resolved": {"fmt": fmt}, "tags": [fmt]}
        before = observe.canon(tr)
        try:
            if fmt == "from_tracks":
                new = SolutionTracks.from_tracks(tr)
            else:
                new = SolutionTracks(tr.graph, segmentation=tr.segmentation, scale=None if tr.scale is None else list(tr.scale), ndim=tr.ndim, features=tr.features)
        except StepTimeout:
            raise
        except Exception as e:  # noqa: BLE001
            sim.guard("restart_failed", f"{fmt} {type(e).__name__} {str(e)[:120]}")
        if observe.canon(new) != before:
            sim.guard("restart_failed", f"{fmt}: rebuilt object differs")
        sim.adopt(new, same_keys=True)
        sim.count("io_rebuild_" + fmt)
        out["cls"] = "accepted"
        return out

    def _refused_reexport(self, sim, op, fmt, prev, subset):
        """A second GEFF export into a directory that holds an earlier one, without
        overwrite: it has to be refused, and a refused export leaves the files of the
        earlier, acknowledged export exactly as they were."""
        tr = sim.tracks
        out = {"resolved": {"fmt": fmt, "into_prev": "refuse"}, "tags": [fmt, "into_existing_export"]}
        before = sim.export_digest.get("geff")
        pre = observe.deep(tr, len(sim.emissions))
        exc = None
        try:
            self._write(sim, fmt, prev, subset, False)
        except StepTimeout:
            raise
        except Exception as e:  # noqa: BLE001
            exc = e
        quiesce_io()
        if sim.active("C16"):
            dd = observe.deep_diff(pre, observe.deep(tr, len(sim.emissions)), ignore=("counters",))
            if dd:
                sim.violate("C16", "C16.export_failed", f"export {fmt} into an existing export (refused) changed {dd[:2]}", op, out["tags"])
                return out
            sim.stat("C16.eval")
        if exc is None:
            # the library chose to replace it: from now on this is the acknowledged export
            sim.export_digest["geff"] = self._files_digest(prev)
            out["cls"] = "accepted"
            return out
        out["cls"] = "refused"
        out["exc"] = type(exc).__name__
        sim.count("io_reexport_refused")
        own = "C14" if sim.active("C14") else "C15" if sim.active("C15") else None
        if own and before is not None and self._files_digest(prev) != before:
            sim.violate(own, f"{own}.geff.durable" if own == "C14" else "C15.durable", f"export {fmt} into a directory that holds an earlier export raised {type(exc).__name__} (refused) but changed the files of the earlier export", op, out["tags"], type(exc).__name__)
            return out
        if own:
            sim.stat(f"{own}.eval")
        return out

    # ---------------------------------------------------- durability of acknowledged saves
    @staticmethod
    def _files_digest(d: Path) -> str:
        h = hashlib.sha1()
        for f in sorted(p for p in Path(d).rglob("*") if p.is_file()):
            h.update(str(f.relative_to(d)).encode())
            h.update(f.read_bytes())
        return h.hexdigest()

    @staticmethod
    def _fingerprint(tr):
        return (observe.state_hash(observe.canon(tr)), observe.norm(tr.scale) if tr.scale is not None else None, tuple(sorted(tr.features)))

    def _remember(self, sim, fmt, d, loaded=None):
        """An acknowledged save in the internal format is what a crash later in the session
        restores. Record the bytes on disk and what they load to right now (a witness load,
        so that the later comparison is between two loads of the same files)."""
        if fmt != "internal":
            return
        try:
            w0 = loaded if loaded is not None else self._read(sim, fmt, d, with_pos=True)
        except StepTimeout:
            raise
        except Exception:  # noqa: BLE001  (reported by reimport/restart, not here)
            return
        sim.saves[fmt] = {"dir": d, "digest": self._files_digest(d), "canon": self._fingerprint(w0), "step": sim.step_no}

    def _late_restart(self, sim, op):
        """Crash after edits that were never saved: drop the object and rebuild it from the
        last acknowledged save. Only durable state survives - and it must be exactly what
        was acknowledged: neither later edits of the live object nor later exports, failed
        or not, may have touched those files."""
        rec = sim.saves["internal"]
        d = rec["dir"]
        out = {"resolved": {"fmt": "internal", "late": True, "saved_at_step": rec["step"]}, "tags": ["internal", "late"]}
        own = sim.active("C14")
        if self._files_digest(d) != rec["digest"]:
            if own:
                sim.violate("C14", "C14.internal.durable", f"the files of the save acknowledged at step {rec['step']} changed on disk during later operations", op, out["tags"])
                return out
            sim.guard("restart_failed", "acknowledged save changed on disk")
        try:
            new = self._read(sim, "internal", d, with_pos=True)
        except StepTimeout:
            raise
        except Exception as e:  # noqa: BLE001
            if own:
                sim.violate("C14", "C14.internal.durable", f"the save acknowledged at step {rec['step']} (loadable then) can no longer be loaded: {type(e).__name__}: {str(e)[:200]}", op, out["tags"], type(e).__name__)
                return out
            sim.guard("restart_failed", f"late internal {type(e).__name__} {str(e)[:120]}")
        if self._fingerprint(new) != rec["canon"]:
            if own:
                sim.violate("C14", "C14.internal.durable", f"the save acknowledged at step {rec['step']} now loads to a different state than when it was acknowledged", op, out["tags"])
                return out
            sim.guard("restart_failed", "late internal loads differently")
        if own:
            sim.stat("C14.eval")
        sim.adopt(new, same_keys=True)
        sim.count("io_restart_late")
        out["cls"] = "accepted"
        return out

    # ------------------------------------------------------------------ C15
    def _check_subset(self, sim, op, fmt, d, subset, out):
        import pandas as pd

        tr = sim.tracks
        g = tr.graph
        # the masks as the client knows them: the label image as it was when the last
        # state-changing operation finished (read-only operations in between must not
        # have altered it - if one did, the next export has the wrong masks)
        seg_ref = sim.seg_ref if sim.seg_ref is not None else tr.segmentation
        want = set(subset)
        for n in subset:
            want |= nx.ancestors(g, n)
        want_edges = set(g.subgraph(want).edges)
        tags = out["tags"]
        if fmt.startswith("csv"):
            df = pd.read_csv(d / "tracks.csv")
            idc, pc = ("ID", "Parent ID") if fmt.startswith("csv_names") else ("id", "parent_id")
            ids = [int(x) for x in df[idc]]
            if sorted(ids) != sorted(want):
                sim.violate("C15", "C15.nodes", f"{fmt} subset {sorted(subset)} exported nodes {sorted(ids)}, expected selection+ancestors {sorted(want)}", op, tags)
                return
            edges = {(int(p), int(i)) for p, i in zip(df[pc], df[idc]) if not pd.isna(p)}
            if edges != want_edges:
                sim.violate("C15", "C15.edges", f"{fmt} subset exported links {sorted(edges)}, expected {sorted(want_edges)}", op, tags)
                return
            if fmt.endswith("_tif") and tr.segmentation is not None:
                import tifffile

                img = tifffile.imread(d / "seg.tif")
                ref = np.zeros(seg_ref.shape, dtype=np.int64)
                for n in want:
                    ref[seg_ref == n] = tr.get_track_id(n)
                if img.shape != ref.shape or not np.array_equal(img.astype(np.int64), ref):
                    sim.violate("C15", "C15.seg", f"{fmt} subset: exported label image is not 'masks of exactly the exported nodes (relabelled by track id), background elsewhere'", op, tags)
                    return
        else:
            import zarr

            grp = zarr.open_group(d / "store.zarr" / "tracks", mode="r")
            ids = [int(x) for x in np.asarray(grp["nodes/ids"][:]).tolist()]
            if sorted(ids) != sorted(want):
                sim.violate("C15", "C15.nodes", f"{fmt} subset {sorted(subset)} exported nodes {sorted(ids)}, expected selection+ancestors {sorted(want)}", op, tags)
                return
            eids = np.asarray(grp["edges/ids"][:])
            edges = {(int(a), int(b)) for a, b in eids.reshape(-1, 2).tolist()}
            if edges != want_edges:
                sim.violate("C15", "C15.edges", f"{fmt} subset exported edges {sorted(edges)}, expected {sorted(want_edges)}", op, tags)
                return
            if tr.segmentation is not None:
                sg = np.asarray(zarr.open_array(d / "store.zarr" / "segmentation", mode="r")[:])
                ref = np.where(np.isin(seg_ref, sorted(want)), seg_ref, 0)
                if sg.shape != ref.shape or not np.array_equal(sg, ref):
                    sim.violate("C15", "C15.seg", f"{fmt} subset: exported segmentation is not the original masked to exactly the exported nodes", op, tags)
                    return
        sim.stat("C15.eval")
        sim.case(fmt, observe.shape_hash(tr), tuple(sorted(subset)))
        if want != set(subset):
            sim.count("io_subset_needed_ancestors")


def _num_equal(a, b) -> bool:
    return oracles._same_exact(a, b)


def compare_tracks(a, b, chan: str, fmt: str, with_pos: bool = True) -> list:
    """C14: a = original, b = re-imported. Returns list of (oracle, message)."""
    try:
        return _compare_tracks(a, b, chan, fmt, with_pos)
    except (KeyError, TypeError, ValueError, IndexError) as e:
        # reading a required value from the re-imported object failed: it is not "the same"
        return [(f"C14.{chan}.attrs", f"reading the re-imported tracks raised {type(e).__name__}: {e}")]


def _compare_tracks(a, b, chan: str, fmt: str, with_pos: bool = True) -> list:
    pre = f"C14.{chan}"
    ga, gb = a.graph, b.graph
    if set(ga.nodes) != set(gb.nodes):
        return [(pre + ".nodes", f"node sets differ: only in original {sorted(set(ga.nodes) - set(gb.nodes))[:5]}, only in import {sorted(set(gb.nodes) - set(ga.nodes))[:5]}")]
    if set(ga.edges) != set(gb.edges):
        return [(pre + ".edges", f"edge sets differ: only in original {sorted(set(ga.edges) - set(gb.edges))[:5]}, only in import {sorted(set(gb.edges) - set(ga.edges))[:5]}")]
    out = []
    loaded_pos = with_pos or a.segmentation is None or chan != "geff"
    pk_a = a.features.position_key
    has_pos = all(k in a.features for k in (pk_a if isinstance(pk_a, list) else [pk_a]))
    for n in ga.nodes:
        if int(a.get_time(n)) != int(b.get_time(n)):
            out.append((pre + ".attrs", f"time of node {n}: {a.get_time(n)} vs {b.get_time(n)}"))
        if not has_pos:
            pa = pb = []  # the position feature is switched off in the original: nothing to compare
        else:
            pa = [float(x) for x in a.get_position(n)]
            pb = [float(x) for x in b.get_position(n)]
        if loaded_pos:
            if pa != pb:
                out.append((pre + ".attrs", f"position of node {n}: {pa} vs {pb}"))
        elif not all(abs(x - y) <= 1e-9 * max(1, abs(x)) for x, y in zip(pa, pb)) or len(pa) != len(pb):
            out.append((pre + ".attrs", f"recomputed position of node {n}: {pa} vs {pb}"))
        if a.get_track_id(n) != b.get_track_id(n):
            out.append((pre + ".attrs", f"track id of node {n}: {a.get_track_id(n)} vs {b.get_track_id(n)}"))
        if out:
            return out[:1]
    # features that were loaded rather than recomputed
    if chan in ("internal", "geff") or fmt == "csv_names":
        skip = {a.features.time_key, a.features.tracklet_key}
        pk = a.features.position_key
        skip |= set(pk) if isinstance(pk, list) else {pk}
        for key, feat in a.features.items():
            if key in skip:
                continue
            if fmt == "csv_names" and key == "score":
                continue
            bkey = key
            if key == a.features.lineage_key:
                bkey = b.features.lineage_key  # importers use the standard name
            if feat["feature_type"] == "node":
                for n in ga.nodes:
                    va, vb = a.get_node_attr(n, key), b.get_node_attr(n, bkey)
                    if not _num_equal(va, vb):
                        return [(pre + ".attrs", f"node feature {key} of node {n}: {va!r} vs {vb!r}")]
            elif chan != "csv":
                for e in ga.edges:
                    va, vb = a.get_edge_attr(e, key), b.get_edge_attr(e, bkey)
                    if not _num_equal(va, vb):
                        return [(pre + ".attrs", f"edge feature {key} of edge {e}: {va!r} vs {vb!r}")]
    if chan in ("internal", "geff") and a.segmentation is not None:
        if b.segmentation is None or a.segmentation.shape != b.segmentation.shape or not np.array_equal(a.segmentation, np.asarray(b.segmentation)):
            return [(pre + ".seg", "segmentation arrays differ")]
        if chan == "internal" and a.segmentation.dtype != b.segmentation.dtype:
            return [(pre + ".seg", f"segmentation dtype {a.segmentation.dtype} vs {b.segmentation.dtype}")]
    if chan == "internal":
        sa = None if a.scale is None else [float(x) for x in a.scale]
        sb = None if b.scale is None else [float(x) for x in b.scale]
        if sa != sb:
            return [(pre + ".scale", f"scale {sa} vs {sb}")]
        ra = {k: {kk: observe.norm(vv) for kk, vv in dict(f).items()} for k, f in a.features.items()}
        rb = {k: {kk: observe.norm(vv) for kk, vv in dict(f).items()} for k, f in b.features.items()}
        if ra != rb:
            ks = [k for k in set(ra) | set(rb) if ra.get(k) != rb.get(k)]
            return [(pre + ".registry", f"feature registry differs for {sorted(ks)[:4]}")]
        spa = (a.features.time_key, observe.norm(a.features.position_key), a.features.tracklet_key, a.features.lineage_key)
        spb = (b.features.time_key, observe.norm(b.features.position_key), b.features.tracklet_key, b.features.lineage_key)
        if spa != spb:
            return [(pre + ".registry", f"special keys {spa} vs {spb}")]
    return []
