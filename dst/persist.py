"""placeholder"""
class IO:
    def __init__(self, case): pass
    def cleanup(self): pass
    def op_save(self, sim, op): return None
    def op_export(self, sim, op): return None
    def op_reimport(self, sim, op): return None
    def op_restart(self, sim, op): return None
