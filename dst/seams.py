"""Disk seam: every open/read/write/mkdir/replace/link under a scratch root goes through
here while armed, is counted, and the k-th call of one kind can be made to fail with
OSError.  Armed only for the duration of one library call under test."""
from __future__ import annotations

import builtins
import errno
import io
import os
import re
import threading

_real_open = builtins.open
_real_io_open = io.open
_real = {name: getattr(os, name) for name in ("mkdir", "replace", "rename", "link", "unlink", "makedirs")}

_UUID = re.compile(r"[0-9a-f]{32}|[0-9a-f]{8}-[0-9a-f]{4}-[0-9a-f]{4}-[0-9a-f]{4}-[0-9a-f]{12}")


class InjectedOSError(OSError):
    pass


class _Proxy:
    """File proxy that counts (and may fail) read/write calls."""

    def __init__(self, f, seam, path, writable):
        object.__setattr__(self, "_f", f)
        object.__setattr__(self, "_seam", seam)
        object.__setattr__(self, "_path", path)
        object.__setattr__(self, "_w", writable)

    def __getattr__(self, name):
        return getattr(self._f, name)

    def __setattr__(self, name, value):
        setattr(self._f, name, value)

    def __enter__(self):
        self._f.__enter__()
        return self

    def __exit__(self, *a):
        return self._f.__exit__(*a)

    def __iter__(self):
        self._seam.hit("read", self._path)
        return iter(self._f)

    def __next__(self):
        return next(self._f)

    def write(self, data):
        self._seam.hit("write", self._path)
        return self._f.write(data)

    def writelines(self, lines):
        self._seam.hit("write", self._path)
        return self._f.writelines(lines)

    def read(self, *a):
        self._seam.hit("read", self._path)
        return self._f.read(*a)

    def readline(self, *a):
        self._seam.hit("read", self._path)
        return self._f.readline(*a)

    def readinto(self, b):
        self._seam.hit("read", self._path)
        return self._f.readinto(b)

    def readlines(self, *a):
        self._seam.hit("read", self._path)
        return self._f.readlines(*a)


class DiskSeam:
    def __init__(self, root: str, fault: dict | None = None):
        self.root = os.path.realpath(str(root))
        self.fault = fault  # {"kind": ..., "k": 1-based index}
        self.counts: dict = {}
        self.events: list = []
        self.fired = None
        self.fired_at = None
        self.lock = threading.Lock()
        self.armed = False

    # -------------------------------------------------------------- helpers
    def _mine(self, path) -> bool:
        try:
            p = os.path.realpath(os.fspath(path))
        except TypeError:
            return False
        if isinstance(p, bytes):
            p = p.decode(errors="replace")
        return p == self.root or p.startswith(self.root + os.sep)

    def _rel(self, path) -> str:
        p = os.path.realpath(os.fspath(path))
        return _UUID.sub("#", os.path.relpath(p, self.root))

    def hit(self, kind: str, path):
        """Count one call; raise if it is the armed one."""
        with self.lock:
            n = self.counts.get(kind, 0) + 1
            self.counts[kind] = n
            rel = self._rel(path)
            self.events.append((kind, rel))
            f = self.fault
            if f and self.fired is None and f["kind"] == kind and f["k"] == n:
                self.fired = (kind, n, rel)
                self.fired_at = len(self.events)
                code = errno.EIO if kind == "read" or (kind == "open" and f.get("mode") == "r") else errno.ENOSPC
                raise InjectedOSError(code, f"injected {errno.errorcode[code]} on {kind} #{n}", rel)

    # -------------------------------------------------------------- patched functions
    def _open(self, real):
        def opener(file, mode="r", *a, **kw):
            if self.armed and not isinstance(file, int) and self._mine(file):
                self.hit("open", file)
                f = real(file, mode, *a, **kw)
                return _Proxy(f, self, file, any(c in mode for c in "wax+"))
            return real(file, mode, *a, **kw)
        return opener

    def _wrap(self, name):
        real = _real[name]

        def fn(*a, **kw):
            if self.armed and a and self._mine(a[0]):
                kind = {"mkdir": "mkdir", "makedirs": "mkdir", "replace": "replace", "rename": "replace", "link": "link", "unlink": "unlink"}[name]
                if kind == "mkdir" and os.path.isdir(a[0]):
                    return real(*a, **kw)  # a real fs would answer EEXIST; pathlib swallows it
                self.hit(kind, a[0])
            return real(*a, **kw)
        return fn

    def __enter__(self):
        builtins.open = self._open(_real_open)
        io.open = self._open(_real_io_open)
        for name in _real:
            if name == "makedirs":
                continue  # makedirs calls mkdir
            setattr(os, name, self._wrap(name))
        self.armed = True
        return self

    def __exit__(self, *a):
        self.armed = False
        builtins.open = _real_open
        io.open = _real_io_open
        for name, fn in _real.items():
            setattr(os, name, fn)
        return False

    def digest_events(self):
        return [f"{k}:{p}" for k, p in self.events]


def quiesce_io(timeout: float = 5.0) -> None:
    """Wait until zarr's I/O loop thread has no unfinished task, then collect garbage in
    the calling thread. After an injected fault the aborted call leaves queued coroutines
    behind; letting the cyclic GC free them from the main thread while the loop thread is
    still stepping them crashed the interpreter (SIGSEGV during 'Garbage-collecting').
    Automatic GC is therefore disabled for the duration of a run and performed here, at
    points where no library call is in flight."""
    import asyncio
    import gc

    try:
        from zarr.core import sync as zs
    except Exception:  # noqa: BLE001
        zs = None
    if zs is not None and zs.loop[0] is not None and not zs.loop[0].is_closed():
        loop = zs.loop[0]

        async def _idle():
            me = asyncio.current_task()
            for _ in range(200):
                others = [t for t in asyncio.all_tasks() if t is not me and not t.done()]
                if not others:
                    return
                await asyncio.sleep(0.005)

        try:
            asyncio.run_coroutine_threadsafe(_idle(), loop).result(timeout=timeout)
        except Exception:  # noqa: BLE001
            pass
    gc.collect()
