"""Seeded schedule generation: swarm configuration + abstract operation list.

Everything is drawn from one random.Random; operations are state-relative (selectors are
resolved by the simulator when the operation executes), so the list is a pure function of
the seed and stays meaningful when the shrinker deletes earlier operations."""
from __future__ import annotations

import random

from .sim import NODE_CLASSES

# base weights per operation kind; a profile overrides / scales
BASE = {
    "add_node": 3, "delete_node": 2, "add_edge": 4, "delete_edge": 2, "swap": 1.5,
    "update_attrs": 1, "paint": 3, "undo": 2.5, "redo": 2, "enable": 0.3, "disable": 0.3,
    "primitive": 0, "query": 0, "issue_ids": 0, "save": 0, "export": 0, "reimport": 0, "restart": 0.08, "all_pairs": 0,
}

PROFILES = {
    # property -> (world constraints, weight overrides, options)
    "C01": dict(world={}, w={"primitive": 5, "enable": 0.2, "disable": 0.1}, reinvert=0.6, steps=(8, 60), nopix_rare=True),
    "C02": dict(world={}, w={"undo": 6, "redo": 4, "enable": 0.1, "disable": 0.05}, steps=(10, 80), bursty=True, nopix_rare=True),
    "C03": dict(world={"p_seg": 0.3}, w={"add_edge": 7, "add_node": 4, "paint": 2, "undo": 4, "redo": 2.5, "enable": 0, "disable": 0}, steps=(10, 60), wild_edges=True, bursty=True, nopix_rare=True),
    "C04": dict(world={"p_seg": 0.3}, w={"enable": 0.05, "disable": 0.02, "restart": 0.2}, steps=(10, 60), nopix_rare=True),
    "C05": dict(world={"p_seg": 0.3}, w={"add_edge": 5, "delete_edge": 4, "delete_node": 4, "enable": 0.05, "disable": 0.02, "restart": 0.2}, steps=(10, 60), division_bias=True, nopix_rare=True),
    "C06": dict(world={"p_seg": 0.3}, w={"issue_ids": 1, "delete_node": 3, "enable": 0.05, "disable": 0.02, "restart": 0.2}, steps=(10, 60), explicit_tracks=True, nopix_rare=True),
    "C07": dict(world={"seg": True, "feats": "any"}, w={"paint": 8, "enable": 0.1, "disable": 0.05}, steps=(10, 50), nopix=True),
    "C08": dict(world={"seg": True, "feats": "any"}, w={"paint": 8, "enable": 0.6, "disable": 0.3}, steps=(8, 40), motif=0.4, motifs=["toggle", "toggle", "fold"]),
    "C09": dict(world={"seg": True, "feats": "iou"}, w={"paint": 7, "add_edge": 5, "enable": 0.6, "disable": 0.4}, steps=(8, 40), iou_toggle=True, motif=0.4, motifs=["toggle", "toggle", "fold"]),
    "C10": dict(world={}, w={"enable": 4, "disable": 3, "update_attrs": 3, "query": 0.3}, steps=(10, 50), toggle_ids=True, motif=0.4, motifs=["toggle", "toggle", "fold"]),
    "C11": dict(world={}, w={"add_edge": 6, "add_node": 5, "paint": 5, "swap": 2, "update_attrs": 2, "enable": 0.05, "disable": 0.02}, steps=(10, 60), f1=(0.4,), trap=True, werror=True),
    "C14": dict(world={"p_big": 0.03}, w={"reimport": 2.5, "restart": 0.8, "save": 0.8, "export": 0.8, "enable": 0.15, "disable": 0.15}, steps=(4, 25), io=True, explicit_tracks=True),
    "C15": dict(world={"p_big": 0.08}, w={"export": 3, "enable": 0.1, "disable": 0.0}, steps=(4, 25), io=True, subset=1.0, explicit_tracks=True),
    "C16": dict(world={"p_big": 0.03}, w={"query": 3, "export": 2, "save": 1, "enable": 0.1, "disable": 0.0}, steps=(4, 30), io=True),
    "C20": dict(world={}, w={"primitive": 1, "query": 0.5, "enable": 0.2, "disable": 0.1}, steps=(10, 60), f1=(0.1, 0.4), subs=True, werror=True),
}

PRIMS = ["AddNode", "DeleteNode", "AddEdge", "DeleteEdge", "UpdateNodeSeg", "UpdateTrackIDs", "UpdateNodeAttrs"]


def swarm(rng: random.Random, prop: str, tier: str) -> dict:
    """Per-run configuration: which operation kinds are on and how heavy, fault rates."""
    p = PROFILES[prop]
    w = dict(BASE)
    w.update(p.get("w", {}))
    # swarm: scale each kind by a random factor, switch a few off entirely
    for k in list(w):
        if w[k] > 0:
            w[k] *= rng.choice([0, 0.5, 1, 1, 1, 2]) if k not in p.get("w", {}) else rng.choice([0.5, 1, 1, 2])
    lo, hi = p["steps"]
    if prop in ("C03", "C11"):
        w["all_pairs"] = 0.05
    if tier == "thorough":
        hi = int(hi * 2)
        if prop in ("C03", "C11"):
            w["all_pairs"] = 0.4
    cfg = {
        "tier": tier,
        "weights": w,
        "steps": rng.randint(lo, hi),
        "f1": rng.choice(p.get("f1", (0.0, 0.1, 0.1, 0.4))),
        "force": rng.choice([0.1, 0.5, 0.9]),
        "reinvert": p.get("reinvert", 0.0),
        "flags": {k: True for k in ("bursty", "wild_edges", "division_bias", "explicit_tracks", "iou_toggle", "toggle_ids", "trap", "io", "subs", "nopix", "nopix_rare", "werror") if p.get(k)},
        "subset": p.get("subset", 0.5),
        "f2": rng.choice([0.0, 0.0, 0.6]) if p.get("io") else 0.0,
        "sweep": 0.15 if (prop in ("C14", "C16") and tier == "thorough") else 0.0,
        # share of node/edge selectors redirected to what the last effective operation touched
        "locality": rng.choice([0.0, 0.0, 0.3, 0.6]),
        # probability that one scripted motif is spliced into the schedule (not in the
        # I/O profiles, whose sessions are short and dominated by exports)
        "motif": 0.0 if p.get("io") else p.get("motif", 0.25),
        "motifs": p.get("motifs"),
    }
    return cfg


def world_constraints(prop: str) -> dict:
    return dict(PROFILES[prop].get("world", {}))


_LOC = [0.0]  # locality of the run being generated (set by gen_op from cfg)


def _sel(rng, classes=None):
    """A state-relative node selector. With the run's locality the class is replaced by
    "recent" (a node the last effective operation touched): dependent edits on the same
    few nodes are what order-sensitive undo/rollback code needs to be wrong about."""
    classes = classes or NODE_CLASSES
    sel = [rng.choice(classes), rng.randrange(64)]
    if _LOC[0] and rng.random() < _LOC[0]:
        sel[0] = "recent"
    return sel


def _track(rng, cfg):
    r = rng.random()
    if cfg["flags"].get("explicit_tracks") and r < 0.35:
        return ["explicit", rng.choice([1, 2, 3, 5, 8, 13, 21, 40, 99, 256, 300, 512, 70000])]
    if r < 0.45:
        return ["fresh", 0]
    if r < 0.9:
        return ["existing", rng.randrange(32)]
    return ["explicit", rng.randint(1, 30)]


def gen_op(rng: random.Random, cfg: dict, kind: str | None = None) -> dict:
    w = cfg["weights"]
    if kind is None:
        kinds = [k for k in w if w[k] > 0]
        kind = rng.choices(kinds, [w[k] for k in kinds])[0]
    inval = rng.random() < cfg["f1"]
    force = rng.random() < cfg["force"]
    reinv = rng.random() < cfg["reinvert"]
    fl = cfg["flags"]
    op: dict = {"op": kind}
    _LOC[0] = cfg.get("locality", 0.0)
    if kind == "add_node":
        op.update(
            t=rng.randrange(12), track=_track(rng, cfg),
            id=["fresh", 0] if rng.random() < 0.6 else ["explicit", rng.randint(0, 60)],
            force=force, reinvert=reinv,
            pix={"o": [rng.random() for _ in range(3)], "ext": [rng.randint(1, 3) for _ in range(3)], "pat": rng.choice(["box", "box", "scatter", "single"])},
            pos=[rng.random() for _ in range(3)], bogus_attrs=rng.random() < 0.15, reuse_dict=rng.random() < 0.3,
            no_pixels_with_pos=rng.random() < (0.01 if fl.get("nopix") else 0.004 if fl.get("nopix_rare") else 0.0),
            # a client that fills in the lineage id itself: the one the named track has
            # when the call is made, or the one of the node whose attributes it copied
            lineage=rng.choice([None] * 8 + ["of_track", "of_any"]),
            scribble=rng.random() < 0.25,
        )
        if inval:
            op["invalid"] = rng.choice(["exists", "no_time", "no_track", "no_pos", "no_pos", "partial_pos", "id_overflow", "bad_pixels", "bad_value", "none_pos"])
    elif kind == "delete_node":
        cls = ["any", "any", "leaf", "root", "div_parent", "div_child", "isolated", "skip_src", "one_child"]
        if fl.get("division_bias"):
            cls += ["div_parent", "div_child", "div_child"]
        op.update(n=_sel(rng, cls), reinvert=reinv)
        if inval:
            op["invalid"] = rng.choice(["unknown", "unknown", "bad_pixels"])
    elif kind == "add_edge":
        r = rng.random()
        mode = "fwd"
        if fl.get("wild_edges"):
            mode = rng.choice(["fwd", "fwd", "fwd", "asis", "back", "same_frame", "self"])
        elif r < 0.1:
            mode = rng.choice(["asis", "back", "same_frame", "self"])
        ucls = ["any", "leaf", "leaf", "one_child", "div_parent", "isolated", "root", "skip_src"]
        vcls = ["any", "orphan_root", "orphan_root", "has_parent", "div_child", "isolated", "leaf", "skip_dst"]
        if fl.get("trap"):
            ucls += ["div_parent", "div_parent"]
            vcls += ["has_parent", "has_parent"]
        if fl.get("division_bias"):
            ucls += ["one_child", "one_child"]
        op.update(u=_sel(rng, ucls), v=_sel(rng, vcls), mode=mode, force=force, reinvert=reinv)
        if inval:
            op["invalid"] = rng.choice(["unknown_u", "unknown_v"])
    elif kind == "delete_edge":
        cls = ["any", "any", "division", "skip", "normal"]
        if fl.get("division_bias"):
            cls += ["division", "division"]
        op.update(e=[rng.choice(cls), rng.randrange(64)], reinvert=reinv)
        if _LOC[0] and rng.random() < _LOC[0]:
            op["e"][0] = "recent"
        if inval:
            op["invalid"] = "missing"
    elif kind == "swap":
        op.update(a=_sel(rng, ["any", "has_parent", "has_parent", "div_child", "orphan_root"]),
                  b=_sel(rng, ["any", "has_parent", "has_parent", "div_child", "leaf"]), reinvert=reinv)
        if inval:
            op["invalid"] = rng.choice(["count", "unknown"])
    elif kind == "update_attrs":
        key = rng.choice(["score", "score", "@pos", "note"])  # "note": a key that is no registered feature
        if inval or (fl.get("toggle_ids") and rng.random() < 0.4):
            key = rng.choice(["@time", "@managed", "@managed"])
        op.update(n=_sel(rng, ["any"]), key=key, val=rng.choice([0.0, round(rng.random(), 3), round(rng.random(), 3)]), k=rng.randrange(16), multi=rng.random() < 0.2, reinvert=reinv)
        if inval and rng.random() < 0.3:
            op["invalid"] = rng.choice(["unknown", "bad_value"])
    elif kind == "paint":
        vm = rng.choice(["bg", "existing", "existing", "new", "new", "new"])
        op.update(
            t=rng.randrange(12), o=[rng.random() for _ in range(3)], ext=[rng.randint(1, 4) for _ in range(3)],
            value=[vm, rng.randrange(16)], track=_track(rng, cfg), force=force, reinvert=reinv,
            target=rng.randrange(64) if rng.random() < 0.6 else None, whole=rng.random() < 0.3,
            order=rng.choice(["fwd", "fwd", "rev"]), frames=rng.choice([1, 1, 1, 2, 3]),
            big=rng.random() < (0.35 if fl.get("trap") else 0.1),
            noop=rng.choice([None] * 30 + ["bg", "empty"]),
            merge_frames=rng.random() < 0.5, frames_prev=rng.random() < 0.5, extra_first=rng.random() < 0.5,
            scribble=rng.random() < 0.25, split_entries=rng.random() < 0.2,
        )
        if inval:
            op["invalid"] = "two_frames"
    elif kind in ("undo", "redo"):
        pass
    if fl.get("werror") and kind in EDITS and rng.random() < 0.12:
        op["werror"] = True
    elif kind in ("enable", "disable"):
        n = rng.randint(1, 3)
        op.update(keys=[rng.randrange(16) for _ in range(n)], unknown=inval or (fl.get("toggle_ids") and rng.random() < 0.15),
                  allow_ids=bool(fl.get("toggle_ids")) and rng.random() < 0.5)
        if fl.get("iou_toggle") and rng.random() < 0.7:
            op["keys"] = ["@iou"]
        if kind == "enable" and fl.get("toggle_ids") and rng.random() < 0.3:
            # register without computing first ("values already exist"), then enable with
            # recomputation: the second call must still bring every value up to date
            op["pre_norecompute"] = True
    elif kind == "primitive":
        op.update(kind=rng.choice(PRIMS), t=rng.randrange(12), k=rng.randrange(64), j=rng.randrange(64),
                  added=rng.random() < 0.5, lineage=rng.random() < 0.5, score=rng.random() < 0.5,
                  pix={"o": [rng.random() for _ in range(3)], "ext": [rng.randint(1, 3) for _ in range(3)], "pat": rng.choice(["box", "scatter", "single"])},
                  pos=[rng.random() for _ in range(3)])
    elif kind == "all_pairs":
        op.update(cap=rng.choice([6, 8, 10]))
    elif kind == "query":
        op.update(k=rng.randrange(64))
    elif kind == "issue_ids":
        op.update(n=rng.randrange(4))
    elif kind in ("save", "export", "reimport", "restart"):
        fmts = ["internal", "csv", "geff2", "geff3"]
        if kind == "export":
            fmts = ["csv", "csv_tif", "csv_names", "csv_names_tif", "csv_colors", "geff2", "geff3"]
        if kind == "save":
            fmts = ["internal"]
        if kind == "restart":
            fmts = ["internal", "internal", "geff2", "geff3", "csv", "from_tracks", "featuredict"]
        if kind == "reimport" and cfg.get("tier") == "thorough":
            fmts = fmts + ["csv_names"]
        op.update(fmt=rng.choice(fmts))
        if kind == "export":
            # export again to where the previous export of this format went
            op["into_prev"] = rng.choice([None, None, "replace", "refuse"])
            if op["into_prev"] == "refuse":
                op["fmt"] = rng.choice(["geff2", "geff3"])  # only GEFF refuses an existing target
        if kind == "save":
            # Ctrl+S: save again into the directory of this session's last save
            op["reuse_dir"] = rng.random() < 0.5
        if kind == "restart":
            op["feat"] = rng.choice([None, "load", "recompute"])
            # crash after unsaved edits: rebuild from the last acknowledged save, if any
            op["late"] = rng.random() < 0.4
        if kind == "export" and rng.random() < cfg.get("subset", 0.5):
            n = rng.randint(1, 3)
            op["subset"] = [_sel(rng, ["any", "leaf", "root", "div_child", "isolated"]) for _ in range(n)]
            if rng.random() < 0.2:
                op["subset"] = rng.choice(["all", "leaves", "odd", "last_frame", "roots", "not_roots", "none"])
        if kind == "reimport" and op["fmt"].startswith("geff"):
            op["with_pos"] = rng.random() < 0.5
        if kind in ("export",) and op["fmt"].startswith("geff"):
            op["overwrite"] = rng.random() < 0.3
        if cfg.get("sweep", 0) and kind in ("export", "save") and rng.random() < cfg["sweep"]:
            op["sweep"] = True
        elif cfg.get("f2", 0) and rng.random() < cfg["f2"]:
            op["fault"] = {"kind": rng.choice(["open", "write", "write", "mkdir", "replace", "read"]), "k": rng.randrange(400), "side": rng.choice(["w", "w", "r"])}
    return op


EDITS = ["add_node", "delete_node", "add_edge", "delete_edge", "swap", "update_attrs", "paint"]


def _motif(rng: random.Random, cfg: dict) -> list:
    """A short scripted pattern of dependent operations (selectors still state-relative).
    Uniform schedules almost never line these up, and they are where stale values and
    order-sensitive history code show: a feature switched off while its inputs change and
    the element is deleted, then switched on again before the deletion is undone; two
    dependent edits folded into the history by a third one; a node deleted, restored and
    its track neighbour deleted."""
    loc = dict(cfg, locality=0.8)
    kind = rng.choice(cfg.get("motifs") or ["toggle", "fold", "redelete"])
    if kind == "toggle":
        keys = ["@iou"] if rng.random() < 0.5 else [rng.randrange(16)]
        tog = {"keys": keys, "unknown": False, "allow_ids": False}
        paint = gen_op(rng, loc, "paint")
        paint.update(target=rng.randrange(64), noop=None, invalid=None, value=[rng.choice(["bg", "existing", "new"]), rng.randrange(16)], whole=False, frames=1)
        if rng.random() < 0.5:
            dele = {"op": "delete_edge", "e": ["recent", rng.randrange(64)], "reinvert": False}
        else:
            dele = {"op": "delete_node", "n": ["recent", rng.randrange(64)], "reinvert": False}
        return [dict(tog, op="enable"), dict(tog, op="disable"), paint, dele, dict(tog, op="enable"), {"op": "undo"}, {"op": "redo"}, {"op": "undo"}]
    if kind == "fold":
        e = [gen_op(rng, loc, rng.choice(EDITS)) for _ in range(3)]
        for o in e:
            o.pop("invalid", None)
        return [e[0], e[1], {"op": "undo"}, {"op": "undo"}, e[2]] + [{"op": "undo"}] * 3 + [{"op": "redo"}] * 2
    # redelete
    return [{"op": "delete_node", "n": ["one_child", rng.randrange(64)], "reinvert": False}, {"op": "undo"},
            {"op": "delete_node", "n": ["recent", rng.randrange(64)], "reinvert": False}, {"op": "undo"}, {"op": "redo"}]


def gen_schedule(rng: random.Random, cfg: dict) -> list:
    ops = []
    n = cfg["steps"]
    bursty = cfg["flags"].get("bursty")
    while len(ops) < n:
        op = gen_op(rng, cfg)
        ops.append(op)
        if bursty and op["op"] in ("undo", "redo") and rng.random() < 0.6:
            for _ in range(rng.randint(1, 5)):
                ops.append({"op": op["op"]})
    ops = ops[: n + 6]
    if cfg.get("motif") and rng.random() < cfg["motif"]:
        at = rng.randrange(len(ops) + 1)
        m = _motif(rng, cfg)
        m[0] = dict(m[0], motif=True)
        ops[at:at] = m
    return ops
