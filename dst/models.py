"""Reference models, written independently of funtracks (networkx / numpy only)."""
from __future__ import annotations

import networkx as nx
import numpy as np


# ---------------------------------------------------------------- partitions (C04/C05)
def segments(g: nx.DiGraph) -> list[frozenset]:
    """Maximal unbranched segments: weak components after deleting every edge that
    leaves a dividing node (out-degree >= 2)."""
    h = nx.DiGraph()
    h.add_nodes_from(g.nodes)
    for u, v in g.edges:
        if g.out_degree(u) < 2:
            h.add_edge(u, v)
    return [frozenset(c) for c in nx.weakly_connected_components(h)]


def components(g: nx.DiGraph) -> list[frozenset]:
    return [frozenset(c) for c in nx.weakly_connected_components(g)]


def partition_mismatch(blocks: list[frozenset], ident: dict) -> str | None:
    """ident[n]==ident[m]  <=>  n,m in same block.  Returns description or None."""
    seen: dict = {}
    for i, b in enumerate(blocks):
        ids = {ident[n] for n in b}
        if len(ids) != 1:
            return f"block {sorted(b)} carries ids {sorted(map(repr, ids))}"
        (x,) = ids
        if x is None:
            return f"block {sorted(b)} has no id"
        if x in seen:
            return f"id {x!r} on two blocks {sorted(blocks[seen[x]])} and {sorted(b)}"
        seen[x] = i
    return None


# ---------------------------------------------------------------- timeline (C02)
class Timeline:
    """GURQ linear timeline of visited states: list + cursor.

    An accepted edit after k undos appends the undone states in reverse, then the new
    state. Derived from https://github.com/zaboople/klonk/blob/master/TheGURQ.md, not
    from action_history.py."""

    def __init__(self, s0):
        self.T = [s0]
        self.p = 0

    def edit(self, s):
        self.T.extend(reversed(self.T[self.p : len(self.T) - 1]))
        self.T.append(s)
        self.p = len(self.T) - 1

    def can_undo(self):
        return self.p > 0

    def can_redo(self):
        return self.p < len(self.T) - 1

    def undo(self):
        self.p -= 1
        return self.T[self.p]

    def redo(self):
        self.p += 1
        return self.T[self.p]

    def current(self):
        return self.T[self.p]


# ---------------------------------------------------------------- numpy references
def mask_of(seg: np.ndarray, t: int, node: int) -> np.ndarray:
    return seg[t] == node


def ref_area(mask: np.ndarray, scale) -> float:
    vox = 1.0 if scale is None else float(np.prod([float(s) for s in scale[1:]]))
    return float(mask.sum()) * vox


def ref_centroid(mask: np.ndarray, scale) -> list[float]:
    idx = np.nonzero(mask)
    sp = [1.0] * mask.ndim if scale is None else [float(s) for s in scale[1:]]
    return [float(np.mean(ix)) * s for ix, s in zip(idx, sp)]


def ref_iou(a: np.ndarray, b: np.ndarray) -> float:
    union = int((a | b).sum())
    return float((a & b).sum()) / union if union else 0.0


# ---------------------------------------------------------------- scans (C06)
def scan_groups(g: nx.DiGraph, key: str) -> dict:
    out: dict = {}
    for n, d in g.nodes(data=True):
        v = d.get(key)
        if v is not None:
            out.setdefault(v, []).append(n)
    return out


def scan_neighbors(g: nx.DiGraph, tkey: str, timekey: str, tid, t):
    """(latest time < t, earliest time > t) among nodes with track id tid.
    Returns node *sets* at those times (ties cannot occur in a C04-consistent state)."""
    before: dict = {}
    after: dict = {}
    for n, d in g.nodes(data=True):
        if d.get(tkey) == tid:
            tt = d[timekey]
            if tt < t:
                before.setdefault(tt, set()).add(n)
            elif tt > t:
                after.setdefault(tt, set()).add(n)
    pred = before[max(before)] if before else None
    succ = after[min(after)] if after else None
    return pred, succ
