"""Observation of a tracks object: canonical state (C01/C02), deep snapshot (C11/C16)."""
from __future__ import annotations

import hashlib
import math

import numpy as np


def norm(v):
    """Canonical value: sequences -> tuples, numbers by value, NaN == NaN."""
    if isinstance(v, (list, tuple, np.ndarray)):
        return tuple(norm(x) for x in v)
    if isinstance(v, (bool, np.bool_)):
        return bool(v)
    if isinstance(v, (int, np.integer)):
        return int(v)
    if isinstance(v, (float, np.floating)):
        f = float(v)
        if math.isnan(f):
            return "nan"
        if math.isinf(f):
            return "inf" if f > 0 else "-inf"
        if f == int(f) and abs(f) < 2**53:
            return int(f)
        return f
    return v


def canon(tr) -> dict:
    """The observable tracks state: registered features of nodes and edges read through
    the public getters (absent == None), plus the segmentation bytes."""
    nf = sorted(k for k, f in tr.features.items() if f["feature_type"] == "node")
    ef = sorted(k for k, f in tr.features.items() if f["feature_type"] == "edge")
    nodes = {n: {k: norm(tr.get_node_attr(n, k)) for k in nf} for n in tr.graph.nodes}
    edges = {
        (u, v): {k: norm(tr.get_edge_attr((u, v), k)) for k in ef} for u, v in tr.graph.edges
    }
    seg = None
    if tr.segmentation is not None:
        s = tr.segmentation
        seg = (str(s.dtype), tuple(s.shape), hashlib.sha1(np.ascontiguousarray(s).tobytes()).hexdigest())
    return {"nodes": nodes, "edges": edges, "seg": seg}


def canon_diff(a: dict, b: dict, keys_ok=None, limit=4) -> list:
    """Differences between two canon dicts. keys_ok: optional predicate(key)->bool to
    restrict which feature keys are compared."""
    out = []
    for kind in ("nodes", "edges"):
        da, db = a[kind], b[kind]
        for n in sorted(set(da) | set(db), key=repr):
            if n not in da or n not in db:
                out.append((kind, n, "present" if n in da else "absent", "present" if n in db else "absent"))
                continue
            for k in sorted(set(da[n]) | set(db[n])):
                if keys_ok is not None and not keys_ok(k):
                    continue
                if da[n].get(k) != db[n].get(k):
                    out.append((kind, n, k, da[n].get(k), db[n].get(k)))
            if len(out) >= limit:
                return out
    if a["seg"] != b["seg"]:
        out.append(("seg",))
    return out


def _deep_val(v):
    if isinstance(v, np.ndarray) and v.ndim != 1:
        return ("nd", tuple(v.shape), tuple(norm(x) for x in v.ravel().tolist()))
    return norm(v)  # a 1-d array and a list holding the same numbers are the same value


def deep(tr, emissions: int = 0) -> dict:
    """Everything C11 and C16 list. Id counters are recorded under 'counters' but callers
    drop that key before comparing (DESIGN §3)."""
    g = tr.graph
    ta = getattr(tr, "track_annotator", None)
    seg = None
    if tr.segmentation is not None:
        s = tr.segmentation
        seg = (str(s.dtype), tuple(s.shape), hashlib.sha1(np.ascontiguousarray(s).tobytes()).hexdigest())
    pk = tr.features.position_key
    # leftover values of annotator-managed features that are currently disabled are not
    # part of the tracks' state (nobody reads them, enabling recomputes them); actions
    # restore registered features only, so a rolled-back sub-edit may drop them
    stale = {k for k, (_, on) in tr.annotators.all_features.items() if not on}
    d = {
        "nodes": {n: {k: _deep_val(v) for k, v in dd.items() if k not in stale} for n, dd in g.nodes(data=True)},
        "edges": {(u, v): {k: _deep_val(x) for k, x in dd.items() if k not in stale} for u, v, dd in g.edges(data=True)},
        "seg": seg,
        "scale": None if tr.scale is None else ("seq", tuple(float(x) for x in tr.scale)),
        "ndim": tr.ndim,
        "registry": {k: {kk: norm(vv) for kk, vv in dict(f).items()} for k, f in tr.features.items()},
        "special": (
            tr.features.time_key,
            tuple(pk) if isinstance(pk, list) else pk,
            tr.features.tracklet_key,
            tr.features.lineage_key,
        ),
        "annotators": sorted((k, bool(on)) for k, (_, on) in tr.annotators.all_features.items()),
        "tracklets": {} if ta is None else {k: sorted(v) for k, v in ta.tracklet_id_to_nodes.items() if v},
        "lineages": {} if ta is None else {k: sorted(v) for k, v in ta.lineage_id_to_nodes.items() if v},
        # keys of the lookups including entries with empty lists: an entry that lists nothing
        # is harmless for C06, but a read-only call that adds one has modified the lookup
        # exact order of the lookup lists: compared only around read-only operations (C16);
        # accepted edits and rollbacks legitimately re-order them
        "lookup_order": None if ta is None else ({k: list(v) for k, v in ta.tracklet_id_to_nodes.items()}, {k: list(v) for k, v in ta.lineage_id_to_nodes.items()}),
        "lookup_keys": None if ta is None else (sorted((norm(k) for k in ta.tracklet_id_to_nodes), key=repr), sorted((norm(k) for k in ta.lineage_id_to_nodes), key=repr)),
        "undo": tuple(id(a) for a in tr.action_history.undo_stack),
        "redo": tuple(id(a) for a in tr.action_history.redo_stack),
        "emissions": emissions,
        "counters": None if ta is None else (ta.max_tracklet_id, ta.max_lineage_id, tr.node_id_counter),
    }
    return d


def _no_none(d: dict) -> dict:
    return {el: {k: v for k, v in attrs.items() if v is not None} for el, attrs in d.items()}


def deep_diff(a: dict, b: dict, ignore=("counters", "lookup_order")) -> list:
    """Around edits and refused edits (the default `ignore`) an attribute stored as None and
    an attribute that is absent are the same thing - that is the library's own reading
    (its getters return None for both, its actions save and restore values that are not
    None). Around read-only operations (callers that also compare `lookup_order`) the raw
    attribute dictionaries are compared: an export has no business touching them."""
    out = []
    lenient = "lookup_order" in ignore
    for k in a:
        if k in ignore:
            continue
        if lenient and k in ("nodes", "edges"):
            if _no_none(a[k]) == _no_none(b[k]):
                continue
        if a[k] != b[k]:
            if isinstance(a[k], dict) and isinstance(b[k], dict):
                ks = [x for x in sorted(set(a[k]) | set(b[k]), key=repr) if a[k].get(x) != b[k].get(x)]
                out.append((k, [(x, a[k].get(x), b[k].get(x)) for x in ks[:3]]))
            else:
                out.append((k, a[k], b[k]))
    return out


def state_hash(c: dict) -> str:
    """Stable hash of a canon dict."""
    h = hashlib.sha256()
    for n in sorted(c["nodes"]):
        h.update(repr((n, sorted(c["nodes"][n].items()))).encode())
    for e in sorted(c["edges"]):
        h.update(repr((e, sorted(c["edges"][e].items()))).encode())
    h.update(repr(c["seg"]).encode())
    return h.hexdigest()[:16]


def shape_hash(tr) -> str:
    """Multiset of (time, in-degree, out-degree) per node + multiset of edge time pairs."""
    g = tr.graph
    tk = tr.features.time_key
    a = sorted((g.nodes[n].get(tk), g.in_degree(n), g.out_degree(n)) for n in g.nodes)
    b = sorted((g.nodes[u].get(tk), g.nodes[v].get(tk)) for u, v in g.edges)
    return hashlib.sha256(repr((a, b)).encode()).hexdigest()[:16]
