"""Command line: check <id> quick|thorough | replay <file> | selftest ... | setup"""
from __future__ import annotations

import json
import os
import sys
import time


def _evidence(prop, tier, seed, agg, n_viol, known_hits, samples, extra=None):
    from . import batch, env

    st = agg.stats
    evals = sum(v for k, v in st.items() if k.startswith(prop + ".") and k.split(".")[1] in ("eval", "drain", "must_refuse_eval", "node_ids_eval", "query_eval"))
    if prop == "C02":
        distinct = sum(1 for w in agg.words if batch.nontrivial_word(w))
    else:
        distinct = len(agg.cases)
    ops = {}
    for k, v in st.items():
        if k.startswith("op."):
            _, kind, cls = k.split(".")
            ops.setdefault(kind, {})[cls] = v
    faults = {
        "F1_refused_requests": {k: v for k, v in agg.probes.items() if "_refused_" in k or k.startswith("c11_")},
        "F2_io_errors_fired": {k: v for k, v in agg.probes.items() if k.startswith("io_fault_")},
        "F3_crash_restarts": {k: v for k, v in agg.probes.items() if k.startswith("io_restart_")},
        "F4_subscribers": {k: v for k, v in agg.probes.items() if k.startswith("subs_")},
    }
    cov = {
        "evaluations": int(evals),
        "distinct_nontrivial": int(distinct),
        "rule": batch.RULES[prop],
        "samples": samples,
        "runs": agg.runs,
        "steps": agg.steps,
        "runs_per_hour": round(agg.runs / max(agg.wall, 1e-9) * 3600),
        "steps_per_second": round(agg.steps / max(agg.wall, 1e-9), 1),
        "simulated_time": "not applicable - the system has no clock; logical steps are reported",
        "faults": faults,
        "operations": ops,
        "probes": dict(sorted(agg.probes.items())),
        "unreached_probes": [k for k in batch.EXPECTED_PROBES.get(prop, []) if not agg.probes.get(k)],
        "oracle_evaluations": {k: v for k, v in sorted(st.items()) if not k.startswith("op.")},
        "distinct_states_visited": len(agg.visited),
        "distinct_final_states": len(agg.states),
        "distinct_final_shapes": len(agg.shapes),
        "distinct_run_words": len(agg.words),
        "run_aborts": agg.aborts,
        "known_findings_hit": known_hits,
        "components": {
            "real": ["funtracks (all of src/funtracks from the working tree)", "networkx", "numpy", "scikit-image", "pandas", "zarr", "geff", "tifffile", "psygnal", "file system under /dev/shm"],
            "stub": ["client/UI issuing the operations", "caller half of the paint protocol", "refresh subscribers", "failing layer above open()/os.* (I/O fault injection)"],
            "configured": ["zarr async.concurrency=1, threading.max_workers=1", "dask scheduler=synchronous", "PYTHONHASHSEED=0"],
        },
        "exhaustive": False,
    }
    if extra:
        cov.update(extra)
    ev = {
        "property_id": prop, "tier": tier, "seed": seed, "level": "exploration", "coverage": cov,
        "assumptions": [
            "sampling, not proof: small worlds (<= ~15 nodes, <= 6 frames, <= 10x10 pixels)",
            "reference models in /verif/dst/models.py and oracles.py are correct",
            "zarr/dask restricted to one I/O lane behave like the multi-lane defaults",
        ],
        "wall_s": round(agg.wall, 2), "violations": n_viol,
    }
    evdir = os.environ.get("VERIF_EVIDENCE_DIR") or os.path.join(env.VERIF, "evidence")
    os.makedirs(evdir, exist_ok=True)
    with open(os.path.join(evdir, f"{prop}.json"), "w") as f:
        json.dump(ev, f, indent=1, default=repr)


def _sample_runs(prop, seed, tier, n=3):
    from . import runner

    out = []
    for idx in range(n):
        case = runner.make_case(prop, seed, idx, tier)
        r = runner.run_case(case, keep_log=True)
        out.append({
            "idx": idx, "world": case["world"], "swarm": case["swarm"],
            "steps": [list(x) for x in r.get("log", [])][:80],
            "aborted": r.get("aborted"), "violations": r["violations"],
        })
    return out


def _guard_worker(args):
    from . import runner

    prop, seed, tier, idx = args
    r = runner.run_case(runner.make_case(prop, seed, idx, tier))
    return idx, r.get("digest"), r.get("final_hash"), r["harness_error"]


def determinism_guard(prop, seed, tier, n=3):
    """Same seed => same event log: every guard case is executed in two different worker
    processes and the digests are compared. Runs in forked children so that the parent
    never starts zarr's I/O thread before the batch pool is forked."""
    import concurrent.futures as cf
    import multiprocessing as mp

    idxs = [10_000 + i for i in range(n)]
    tasks = [(prop, seed, tier, i) for i in idxs] * 2
    with cf.ProcessPoolExecutor(max_workers=2 * n, mp_context=mp.get_context("fork")) as ex:
        res = list(ex.map(_guard_worker, tasks))
    by = {}
    for idx, dig, fh, err in res:
        by.setdefault(idx, []).append((dig, fh, err))
    for idx, lst in by.items():
        if lst[0] != lst[1] or lst[0][2]:
            print(f"HARNESS-ERROR: determinism guard failed for {prop} idx {idx}: {lst[0][:2]} vs {lst[1][:2]} {lst[0][2] or lst[1][2] or ''}")
            return False
    return True


def _finding_worker(path):
    from . import runner

    case = json.load(open(path))
    res = runner.run_case(case)
    sig = tuple(case.get("expect", {}).get("signature", ()))
    hit = [v for v in res["violations"] if runner.signature(v) == sig]
    return path, hit[0] if hit else None, res["harness_error"]


def regression_replays(prop):
    """Re-execute the stored replay files of the repaired findings of this property: a
    `fixed:` entry suppresses nothing, the violation is reported again if it returns."""
    import concurrent.futures as cf
    import glob
    import multiprocessing as mp

    from . import env

    paths = [p for p in sorted(glob.glob(os.path.join(env.VERIF, "findings", "*.json"))) if json.load(open(p)).get("property") == prop]
    if not paths:
        return [], 0
    with cf.ProcessPoolExecutor(max_workers=min(8, len(paths)), mp_context=mp.get_context("fork")) as ex:
        out = list(ex.map(_finding_worker, paths))
    return [(p, v) for p, v, _ in out if v is not None], len(paths)


def _sweep_stale_scratch():
    """Remove scratch directories left behind by worker processes that no longer exist."""
    import glob
    import shutil

    from . import env

    for d in glob.glob(os.path.join(env.SCRATCH_ROOT, "funtracks-dst-*")) + glob.glob(os.path.join(env.SCRATCH_ROOT, "funtracks-mutant-*")):
        try:
            pid = int(os.path.basename(d).split("-")[2])
        except (IndexError, ValueError):
            continue
        if not os.path.exists(f"/proc/{pid}"):
            shutil.rmtree(d, ignore_errors=True)


def cmd_check(prop, tier):
    from . import batch, env, runner, shrink

    env.boot()
    _sweep_stale_scratch()
    seed = int(os.environ.get("VERIF_SEED", "1"))
    jobs = int(os.environ.get("VERIF_JOBS", str(os.cpu_count() or 4)))
    if prop not in batch.QUICK_RUNS:
        print(f"unknown or unclaimed property {prop}")
        return 2
    if not determinism_guard(prop, seed, tier):
        return 2
    if tier == "quick":
        n_runs = int(os.environ.get("VERIF_RUNS", batch.QUICK_RUNS[prop]))
        budget = None
    else:
        n_runs = None
        budget = float(os.environ.get("VERIF_BUDGET_S", "480"))
    returned, n_regress = regression_replays(prop)
    agg = batch.run_batch(prop, tier, seed, n_runs, budget, jobs)
    findings = batch.load_findings()
    # group violations by signature, lowest idx first
    by_sig = {}
    for idx, v in sorted(agg.viol, key=lambda x: x[0]):
        by_sig.setdefault(runner.signature(v), []).append((idx, v))
    known_hits = dict(agg.known)
    unlisted = []
    for sig, lst in by_sig.items():
        rest = []
        for idx, v in lst:
            k = match_known(v, findings)
            if k is not None:
                known_hits[k["id"]] = known_hits.get(k["id"], 0) + 1
            else:
                rest.append((idx, v))
        if rest:
            unlisted.append((sig, rest))
    for kid, n in known_hits.items():
        k = next(x for x in findings["known"] if x["id"] == kid)
        print(f"KNOWN-FINDING: property={k['property']} {k['description']} (hit {n}x)")
    rc = 0
    for path, v in returned:
        if match_known(v, findings) is None:
            print(f"VIOLATION property={v['property']} replay={path}")
            print(f"  (a repaired finding has returned) oracle={v['oracle']} op={v['op']} tags={v['tags']}: {v['msg'][:300]}")
            rc = 1
    rdir = os.environ.get("VERIF_REPLAY_DIR") or os.path.join(env.VERIF, "replays")
    os.makedirs(rdir, exist_ok=True)
    for sig, lst in unlisted[:5]:
        idx, v = lst[0]
        case = runner.make_case(prop, seed, idx, tier)
        small, res, nruns = shrink.shrink(case, sig, int(os.environ.get("VERIF_SHRINK_BUDGET", "300")))
        if res is None:
            # outcome depended on what the worker process had executed before (state that
            # the library keeps outside the tracks object): accept a violation of the same
            # property with another oracle, otherwise report the harness as unreliable
            again = runner.run_case(case)
            alt = [x for x in again["violations"] if x["property"] == sig[0]]
            if alt:
                sig = runner.signature(alt[0])
                small, res, nruns = shrink.shrink(case, sig, int(os.environ.get("VERIF_SHRINK_BUDGET", "300")))
        if res is None:
            print(f"HARNESS-ERROR: violation {sig} at idx {idx} did not reproduce in the parent process")
            rc = max(rc, 2)
            continue
        sv = next(x for x in res["violations"] if runner.signature(x) == sig)
        # a shrunk case must not have turned into a listed finding
        path = os.path.join(rdir, f"{prop}-{seed}-{idx}.json")
        small = dict(small)
        small["expect"] = {"signature": list(sig), "final_hash": res.get("final_hash"), "digest": res.get("digest"), "violation": sv}
        small["shrink_runs"] = nruns
        small["occurrences_in_batch"] = len(lst)
        with open(path, "w") as f:
            json.dump(small, f, indent=1, default=repr)
        print(f"VIOLATION property={v['property']} replay={path}")
        print(f"  oracle={sv['oracle']} op={sv['op']} tags={sv['tags']} ({len(lst)} runs): {sv['msg'][:300]}")
        rc = max(rc, 1)
    for idx, h in agg.harness[:3]:
        print(f"HARNESS-ERROR: run idx {idx}: {h[:600]}")
    if agg.harness and rc != 1:
        # a reproduced violation is the stronger statement: exit 1 with its replay file; the
        # HARNESS-ERROR lines above still say that some runs were lost (e.g. a worker that
        # the code under test brought down)
        rc = 2
    guard_aborts = sum(v for k, v in agg.aborts.items() if k != "dependency_abort")
    if agg.runs and guard_aborts > 0.2 * agg.runs:
        print(f"COVERAGE-WARNING: {guard_aborts} of {agg.runs} runs were ended early by guards {agg.aborts}: another property is broken on this tree (or the harness is); this check explored little")
    samples = _sample_runs(prop, seed, tier)
    extra = {"regression_replays_of_repaired_findings": n_regress, "regression_replays_failing": len(returned)}
    if agg.sys_total:
        extra["systematic_layer"] = {"words_over_EUR_up_to_length": runner.sys_len(tier), "words": agg.sys_total, "executed_exactly_as_intended": agg.sys_exact,
                                      "note": "every word is executed once; an E whose candidate edits were all refused shortens the executed word"}
    _evidence(prop, tier, seed, agg, len(unlisted) + len(returned), known_hits, samples, extra)
    ev = agg.stats
    print(f"{prop} {tier}: runs={agg.runs} steps={agg.steps} wall={agg.wall:.1f}s own-evals={sum(v for k, v in ev.items() if k.startswith(prop + '.'))} distinct-cases={len(agg.cases)} aborts={agg.aborts} violations={len(unlisted)} known={sum(known_hits.values())}")
    return rc


def match_known(v, findings):
    from . import batch

    return batch.match_known(v, findings)


def cmd_replay(path):
    from . import batch, env, runner

    env.boot()
    case = json.load(open(path))
    res = runner.run_case(case)
    exp = case.get("expect", {})
    sig = tuple(exp.get("signature", ()))
    got = [v for v in res["violations"] if runner.signature(v) == sig]
    if res["harness_error"]:
        print("HARNESS-ERROR:", res["harness_error"])
        return 2
    if not got:
        print(f"not reproduced: expected {sig}, got {[runner.signature(v) for v in res['violations']]}")
        return 3
    if exp.get("final_hash") and exp["final_hash"] != res.get("final_hash"):
        print(f"not reproduced exactly: final state hash {res['final_hash']} != recorded {exp['final_hash']}")
        return 3
    v = got[0]
    k = batch.match_known(v, batch.load_findings())
    if k is not None:
        print(f"KNOWN-FINDING: property={k['property']} {k['description']}")
        return 0
    print(f"VIOLATION property={v['property']} replay={path}")
    print(f"  oracle={v['oracle']} op={v['op']} step={v['step']} tags={v['tags']}: {v['msg']}")
    return 1


def main(argv=None):
    argv = argv or sys.argv[1:]
    from . import env

    env.ensure_hashseed([sys.argv[0]] + argv) if False else None
    if not argv:
        print(__doc__)
        return 2
    if argv[0] == "replay":
        return cmd_replay(argv[1])
    if argv[0] == "selftest":
        from . import selftest

        return selftest.main(argv[1:])
    if argv[0] == "setup":
        from . import selftest

        return selftest.setup()
    return cmd_check(argv[0], argv[1] if len(argv) > 1 else os.environ.get("VERIF_TIER", "quick"))


def safe_main(argv=None):
    """Anything escaping the harness is a harness error (exit 2), never a verdict."""
    try:
        return main(argv)
    except SystemExit:
        raise
    except BaseException as e:  # noqa: BLE001
        import traceback

        traceback.print_exc()
        print(f"HARNESS-ERROR: {type(e).__name__}: {e}")
        return 2


if __name__ == "__main__":
    sys.exit(safe_main())
