"""Batches of seeded simulations on all cores, verdict, replay files, evidence."""
from __future__ import annotations

import concurrent.futures as cf
import faulthandler
import json
import multiprocessing as mp
import os
import sys
import time

from . import env, runner
from .runner import signature

QUICK_RUNS = {
    "C01": 3000, "C02": 4000, "C03": 4000, "C04": 4000, "C05": 4000, "C06": 4000, "C07": 3000, "C08": 2000,
    "C09": 3000, "C10": 4000, "C11": 3000, "C14": 320, "C15": 400, "C16": 400, "C20": 4000,
}
CHUNK = 8
IO_PROPS = {"C14", "C15", "C16"}


def _worker(args):
    prop, seed, tier, start, n = args
    faulthandler.dump_traceback_later(2400, exit=True)
    out = []
    for idx in range(start, start + n):
        case = runner.make_case(prop, seed, idx, tier)
        r = runner.run_case(case)
        r["idx"] = idx
        if not r["violations"] and not r["harness_error"]:
            r.pop("log", None)
        out.append(r)
    faulthandler.cancel_dump_traceback_later()
    return out


def _child(conn, args):
    try:
        conn.send(("ok", _worker(args)))
    except BaseException as e:  # noqa: BLE001 - reported to the parent as a harness error
        import traceback

        try:
            conn.send(("err", f"{type(e).__name__}: {e}\n{traceback.format_exc()[-1500:]}"))
        except Exception:  # noqa: BLE001
            pass
    finally:
        conn.close()


def load_findings():
    from . import findings

    return findings.load()


def match_known(v, f=None):
    from . import findings

    return findings.match_known(v, f)


class Agg:
    def __init__(self):
        self.runs = 0
        self.steps = 0
        self.stats = {}
        self.probes = {}
        self.cases = set()
        self.words = set()
        self.aborts = {}
        self.states = set()
        self.visited = set()
        self.shapes = set()
        self.viol = []  # (idx, violation)
        self.harness = []
        self.samples = []
        self.restarts = 0
        self.known = {}
        self.sys_total = 0
        self.sys_exact = 0

    def add(self, r):
        self.runs += 1
        self.steps += r.get("steps", 0)
        for k, v in r.get("stats", {}).items():
            self.stats[k] = self.stats.get(k, 0) + v
        for k, v in r.get("probes", {}).items():
            self.probes[k] = self.probes.get(k, 0) + v
        self.cases.update(r.get("cases", ()))
        self.visited.update(r.get("state_hashes", ()))
        if r.get("word"):
            self.words.add(r["word"])
        if runner.PINNED_BASE > r.get("idx", 0) >= runner.SYSTEMATIC_BASE:
            self.sys_total += 1
            if r.get("word") == runner.systematic_words(8)[r["idx"] - runner.SYSTEMATIC_BASE]:
                self.sys_exact += 1
        if r.get("aborted"):
            self.aborts[r["aborted"]] = self.aborts.get(r["aborted"], 0) + 1
        if "final_hash" in r:
            self.states.add(r["final_hash"])
            self.shapes.add(r["shape"])
        self.restarts += r.get("restarts", 0)
        for k, n in r.get("known_hits", {}).items():
            self.known[k] = self.known.get(k, 0) + n
        for v in r.get("violations", []):
            self.viol.append((r["idx"], v))
        if r.get("harness_error"):
            self.harness.append((r["idx"], r["harness_error"]))


_STRUCT = [
    "ae_join", "ae_make_division", "ae_skip", "ae_forced", "ae_over_division_edge", "ae_target_has_parent", "ae_existing_edge",
    "an_new_track", "an_append", "an_prepend", "an_into_skip_edge", "an_trackid_clash_same_time", "an_upstream_division", "an_downstream_division",
    "de_normal_edge", "de_division_edge", "de_skip_edge", "dn_isolated", "dn_leaf", "dn_root_with_child", "dn_middle", "dn_first_after_division", "dn_dividing",
    "sw_both", "sw_one_sided", "h_undo_step", "h_redo_step", "h_undo_empty", "h_redo_empty", "h_undo_deep", "h_edit_after_undo",
    "cfg_2d", "cfg_3d", "cfg_noseg", "cfg_scale_none", "cfg_scale_ones", "cfg_scale_aniso", "cfg_ids_computed", "cfg_ids_adopted", "cfg_ids_featuredict", "cfg_empty_start",
]
_PAINT = ["pt_new_label", "pt_on_background", "pt_grow", "pt_erase_part", "pt_erase_all", "pt_over_part_of_other", "pt_over_all_of_other", "pt_over_several", "pt_multi_frame_erase", "pt_forced", "cfg_seg"]
_IO = ["io_internal_ok", "io_csv_ok", "io_geff2_ok", "io_geff3_ok"]
EXPECTED_PROBES = {
    "C01": _STRUCT + _PAINT + ["c01_primitive_" + k for k in ("AddNode", "DeleteNode", "AddEdge", "DeleteEdge", "UpdateNodeSeg", "UpdateTrackIDs", "UpdateNodeAttrs")]
    + ["c01_reinvert_" + k for k in ("add_node", "delete_node", "add_edge", "delete_edge", "swap", "update_attrs", "paint")] + ["cfg_pos_per_axis", "cfg_pos_renamed"],
    "C02": _STRUCT + _PAINT + ["h_drain_full"],
    "C03": _STRUCT + ["ae_refused_non-forward", "ae_refused_merge_without_force", "ae_refused_third_child"],
    "C04": _STRUCT + ["io_restart_internal", "io_restart_geff", "io_restart_csv", "io_edit_after_restart"],
    "C05": _STRUCT + ["io_restart_internal", "io_restart_geff", "io_restart_csv", "io_restart_late", "io_edit_after_restart", "c05_structure_changed"],
    "C06": _STRUCT + ["io_restart_internal", "io_edit_after_restart"],
    "C07": _PAINT + ["dn_leaf", "dn_middle", "h_undo_step", "h_redo_step", "cfg_2d", "cfg_3d"],
    "C08": _PAINT + ["f_enable_after_edits", "cfg_scale_none", "cfg_scale_ones", "cfg_scale_aniso", "cfg_2d", "cfg_3d"],
    "C09": _PAINT + ["f_enable_after_edits", "ae_skip", "de_skip_edge", "ae_join"],
    "C10": ["f_enable_after_edits", "f_edit_while_disabled", "f_reenable_ids", "f_unknown_key", "f_protected_time", "f_protected_track_id", "f_protected_lineage_id", "f_protected_area", "f_protected_pos", "f_protected_iou", "c10_enable_values_checked", "cfg_seg", "cfg_noseg", "cfg_ids_featuredict"],
    "C11": ["c11_add_edge_third child", "c11_add_edge_merge without force", "c11_add_edge_unknown", "c11_add_node_no_pos", "c11_add_node_exists", "c11_add_node_no_time", "c11_add_node_no_track", "c11_add_node_division", "c11_delete_node_unknown", "c11_delete_edge_missing", "c11_update_attrs_protected", "c11_swap_count", "pt_refused_after_overwrite"],
    "C14": _IO + ["io_restart_internal", "io_restart_geff", "io_restart_csv", "io_restart_late", "io_edit_after_restart", "io_fault_write", "io_fault_open", "io_fault_read", "io_read_fault_raised", "cfg_pos_per_axis", "cfg_seg", "cfg_noseg", "cfg_scale_none"],
    "C15": ["io_csv_ok", "io_csv_tif_ok", "io_csv_names_ok", "io_geff2_ok", "io_geff3_ok", "io_subset_root", "io_subset_leaf", "io_subset_div_child", "io_subset_all", "io_subset_needed_ancestors", "io_subset_leaves", "io_subset_odd", "cfg_big_sparse_ids", "cfg_seg", "cfg_noseg"],
    "C16": ["io_csv_ok", "io_csv_tif_ok", "io_csv_names_ok", "io_geff2_ok", "io_geff3_ok", "io_internal_ok", "io_fault_write", "io_fault_open", "cfg_scale_none", "cfg_pos_per_axis"],
    "C20": _STRUCT + ["pt_new_label"],
}


_CLIENT = ["cfg_numpy_scalar_client", "cfg_id_keys_renamed", "sel_recent_node"]
for _p, _extra in {
    "C01": _CLIENT + ["motif_started", "cfg_seg_not_contiguous", "client_reuses_pixel_arrays", "pt_noop_bg", "pt_noop_empty"],
    "C02": _CLIENT + ["motif_started", "pt_noop_bg", "pt_noop_empty", "client_reuses_pixel_arrays", "io_rebuild_from_tracks"],
    "C03": _CLIENT + ["motif_started", "cfg_node_id_zero"],
    "C04": _CLIENT + ["motif_started", "cfg_node_id_zero", "io_rebuild_from_tracks", "io_rebuild_featuredict"],
    "C05": _CLIENT + ["motif_started", "cfg_node_id_zero", "an_lineage_supplied_of_track", "an_lineage_supplied_of_any", "io_rebuild_from_tracks"],
    "C06": _CLIENT + ["cfg_node_id_zero", "io_rebuild_from_tracks", "io_rebuild_featuredict"],
    "C07": _CLIENT + ["cfg_seg_not_contiguous", "client_reuses_pixel_arrays", "pt_noop_bg", "pt_merged_frame_entries", "pt_entries_split_per_stroke", "motif_started"],
    "C08": _CLIENT + ["cfg_seg_not_contiguous", "motif_started", "pt_entries_split_per_stroke", "io_restart_with_requested_features"],
    "C09": _CLIENT + ["motif_started", "io_restart_with_requested_features"],
    "C10": _CLIENT + ["motif_started"],
    "C11": _CLIENT + ["f5_warning_refused_UserWarning", "pt_entries_split_per_stroke", "pt_merged_frame_entries", "client_reuses_pixel_arrays", "c11_add_node_bad_value", "c11_add_node_none_pos", "c11_add_node_bad_pixels"],
    "C14": ["cfg_numpy_scalar_client", "cfg_id_keys_renamed", "cfg_pos_as_ndarray", "cfg_big_sparse_ids", "io_save_into_same_dir", "io_export_replaces_previous", "io_reexport_refused", "io_restart_with_requested_features", "io_rebuild_from_tracks"],
    "C15": ["cfg_id_keys_renamed", "cfg_pos_as_ndarray", "io_subset_none", "io_csv_colors_ok", "io_csv_names_tif_ok", "io_export_replaces_previous", "io_reexport_refused"],
    "C16": ["cfg_id_keys_renamed", "cfg_pos_as_ndarray", "io_csv_colors_ok", "io_csv_names_tif_ok", "io_export_replaces_previous", "io_reexport_refused", "io_save_into_same_dir"],
    "C20": _CLIENT + ["f5_warning_refused_UserWarning", "io_rebuild_from_tracks", "pt_noop_bg", "pt_noop_empty"],
}.items():
    EXPECTED_PROBES[_p] = EXPECTED_PROBES[_p] + [x for x in _extra if x not in EXPECTED_PROBES[_p]]


def nontrivial_word(w: str) -> bool:
    """C02 rule: contains edit-after-undo followed later by >= 2 consecutive undos."""
    i = w.find("UE")
    return i >= 0 and "UU" in w[i + 2 :]


RULES = {
    "C01": "one evaluation = one inverse/inverse² probe (re-inversion of an accepted user action, or a primitive BasicAction applied within its preconditions and inverted three times) with full canonical-state equality; distinct = distinct (probe kind, action kind, pre-state predicate tags, graph shape hash)",
    "C02": "one evaluation = one undo()/redo() call checked against the list+cursor timeline model (return value and full state), plus end-of-run drain; distinct_nontrivial = distinct {E,U,R}-words of whole runs that contain an edit made after an undo and, later, at least two consecutive undos",
    "C03": "one evaluation = structural invariant (in-degree<=1, out-degree<=2, strictly forward edges) after an accepted action/undo/redo, plus model-predicted mandatory refusals and forced-removal minimality; distinct = distinct (operation kind, outcome, pre-state predicate tags, post graph shape hash) over edits",
    "C04": "one evaluation = segment-partition oracle (same track id <=> same maximal unbranched segment) + frame clause after a state change; distinct = distinct post-state graph shape hashes among steps that changed nodes or edges",
    "C05": "one evaluation = component-partition oracle (same lineage id <=> weakly connected) + frame clause after a state change; distinct = distinct post-state graph shape hashes among steps that changed nodes or edges",
    "C06": "one evaluation = both lookups vs graph scan and next-id freshness after a step (+ every-k-steps all (track id, t) neighbour/at-time queries vs scan); distinct = distinct (graph shape hash, set of track ids) states compared",
    "C07": "one evaluation = label<->node bijection + pixel query vs array scan after a state change (+ painted-array equality after accepted strokes; undo bytes via the timeline); distinct = distinct (operation kind, stroke class tags, resulting array hash)",
    "C08": "one evaluation = every node's enabled measurements vs numpy reference (area, centroid) and vs fresh bulk recomputation (shape features) after a state change; distinct = distinct canonical state hashes compared (with >=1 node)",
    "C09": "one evaluation = every edge's stored IoU vs numpy mask overlap after a state change, bulk path checked right after enable; distinct = distinct canonical state hashes compared (with >=1 node)",
    "C10": "one evaluation = registry/activation model + frozen-value check after a step, values-vs-reference after each enable, KeyError/ValueError + unchanged snapshot for unknown/protected keys; distinct = distinct (toggle or protected-update operation, keys, outcome, enabled set before)",
    "C11": "one evaluation = deep snapshot equality (graph, all attributes, segmentation, lookups, both history stacks, emissions) around one raising user action; distinct = distinct (action kind, exception, refusal reason, pre-state tags, graph shape hash)",
    "C14": "one evaluation = one export+import round trip compared field by field; distinct = distinct (format, variant, world configuration, graph shape hash) with at least one division or skip edge",
    "C15": "one evaluation = one subset export compared with subset ∪ ancestors (nodes, induced edges, masked segmentation); distinct = distinct (format, graph shape hash, resolved subset)",
    "C16": "one evaluation = deep snapshot equality around one read-only operation (query battery, export, save; also when the export fails with an injected I/O error); distinct = distinct (operation, format/variant, fault position class, graph shape hash)",
    "C20": "one evaluation = per-operation emission count/payload per subscriber (+ end-of-run exactly-once total); distinct = distinct (operation kind, outcome, pre-state tags, return value)",
}


def run_batch(prop: str, tier: str, seed: int, n_runs: int | None, budget_s: float | None, jobs: int):
    env.boot()
    from . import persist  # noqa: F401  (import in parent so forked workers share it)

    t0 = time.time()
    agg = Agg()
    ctx = mp.get_context("fork")
    next_idx = 0
    deadline = t0 + budget_s if budget_s else None
    total = n_runs if n_runs else 10**9
    pending = set()
    # systematic layer (C02): every {E,U,R}-word up to length 6 (quick) / 8 (thorough), once
    sys_left = []
    if prop in runner.PINNED:
        sys_left = [(runner.PINNED_BASE, len(runner.PINNED[prop]))]
    if prop == "C02":
        n_words = len(runner.systematic_words(runner.sys_len(tier)))
        sys_left = [(runner.SYSTEMATIC_BASE + i, min(CHUNK * 4, n_words - i)) for i in range(0, n_words, CHUNK * 4)]
    # one forked child per chunk (boot state is shared copy-on-write, so a fork costs
    # milliseconds): a child that dies - a segfault or bus error provoked by the code under
    # test - loses its own chunk only; it is reported as a harness error with the run
    # indices it held, and the batch goes on
    from multiprocessing.connection import wait as mp_wait

    running: dict = {}  # sentinel -> (process, parent connection, args)

    def launch(args):
        rd, wr = ctx.Pipe(duplex=False)
        p = ctx.Process(target=_child, args=(wr, args), daemon=True)
        p.start()
        wr.close()
        running[p.sentinel] = (p, rd, args)

    def submit():
        nonlocal next_idx
        while sys_left and len(running) < jobs:
            start, n = sys_left.pop(0)
            launch((prop, seed, tier, start, n))
        while len(running) < jobs and next_idx < total and (deadline is None or time.time() < deadline):
            n = min(2 if prop in IO_PROPS else CHUNK, total - next_idx)
            launch((prop, seed, tier, next_idx, n))
            next_idx += n

    submit()
    hard = (t0 + budget_s * 2 + 300) if budget_s else t0 + 3600
    deaths = 0
    try:
        while running:
            ready = mp_wait([v[1] for v in running.values()] + list(running), timeout=30)
            if not ready and time.time() > hard:
                raise RuntimeError("batch exceeded its hard wall-clock limit")
            for sent in list(running):
                p, rd, args = running[sent]
                msg = None
                if rd.poll():
                    try:
                        msg = rd.recv()
                    except (EOFError, OSError):
                        msg = None
                elif p.is_alive():
                    continue
                elif rd.poll():
                    # the child finished between the two tests above: its result is there
                    try:
                        msg = rd.recv()
                    except (EOFError, OSError):
                        msg = None
                p.join(timeout=10)
                rd.close()
                del running[sent]
                if msg is None:
                    deaths += 1
                    agg.harness.append((args[3], f"worker died (exit code {p.exitcode}) while holding runs {args[3]}..{args[3] + args[4] - 1}"))
                elif msg[0] == "err":
                    agg.harness.append((args[3], f"worker failed: {msg[1]}"))
                else:
                    for r in msg[1]:
                        agg.add(r)
            if deaths > 20:
                break
            sigs = {}
            for _, v in agg.viol:
                sigs[signature(v)] = sigs.get(signature(v), 0) + 1
            if len(sigs) < 6 and (not sigs or max(sigs.values()) < 200):
                submit()
    finally:
        for p, rd, _ in running.values():
            p.kill()
            p.join(timeout=5)
            rd.close()
    agg.wall = time.time() - t0
    return agg
