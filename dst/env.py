"""Process bootstrap: must be imported before anything touches funtracks/zarr/dask.

* pins PYTHONHASHSEED (re-exec), disables tqdm, silences warnings
* puts ${VERIF_REPO:-/repo}/src first on sys.path and asserts funtracks loads from there
* forces zarr and dask onto one I/O lane (otherwise the order of file operations of a
  GEFF export differs from run to run and replay is lost)
"""
from __future__ import annotations

import os
import sys
import warnings

HARNESS_VERSION = 1
REPO = os.environ.get("VERIF_REPO", "/repo")
VERIF = os.path.dirname(os.path.dirname(os.path.abspath(__file__)))
SCRATCH_ROOT = os.environ.get("VERIF_SCRATCH", "/dev/shm")


def ensure_hashseed(argv=None) -> None:
    """Re-exec the interpreter with PYTHONHASHSEED=0 unless already fixed."""
    want = os.environ.get("VERIF_HASHSEED", "0")
    if os.environ.get("PYTHONHASHSEED") != want:
        os.environ["PYTHONHASHSEED"] = want
        os.execv(sys.executable, [sys.executable] + (argv or sys.argv))


_booted = False


def boot():
    global _booted
    if _booted:
        return
    _booted = True
    os.environ.setdefault("TQDM_DISABLE", "1")
    os.environ.setdefault("OMP_NUM_THREADS", "1")
    os.environ.setdefault("OPENBLAS_NUM_THREADS", "1")
    os.environ.setdefault("MKL_NUM_THREADS", "1")
    warnings.simplefilter("ignore")
    import logging

    # zarr's I/O loop logs "Task exception was never retrieved" for operations that were
    # still queued when an injected fault aborted the call; that is expected noise
    logging.getLogger("asyncio").setLevel(logging.CRITICAL)
    src = os.path.join(REPO, "src")
    if src in sys.path:
        sys.path.remove(src)
    sys.path.insert(0, src)
    import zarr

    zarr.config.set({"async.concurrency": 1, "threading.max_workers": 1})
    import dask

    dask.config.set(scheduler="synchronous")
    import funtracks

    got = os.path.realpath(os.path.dirname(funtracks.__file__))
    want = os.path.realpath(os.path.join(src, "funtracks"))
    if got != want:
        raise RuntimeError(f"funtracks imported from {got}, expected {want}")
    warnings.simplefilter("ignore")
    # everything imported so far is permanent: keep it out of later collections
    import funtracks.import_export  # noqa: F401
    import funtracks.user_actions  # noqa: F401
    import gc

    gc.collect()
    gc.freeze()


def splitmix64(*vals: int) -> int:
    x = 0x9E3779B97F4A7C15
    for v in vals:
        x = (x ^ (v & 0xFFFFFFFFFFFFFFFF)) & 0xFFFFFFFFFFFFFFFF
        x = (x + 0x9E3779B97F4A7C15) & 0xFFFFFFFFFFFFFFFF
        z = x
        z = ((z ^ (z >> 30)) * 0xBF58476D1CE4E5B9) & 0xFFFFFFFFFFFFFFFF
        z = ((z ^ (z >> 27)) * 0x94D049BB133111EB) & 0xFFFFFFFFFFFFFFFF
        x = z ^ (z >> 31)
    return x
