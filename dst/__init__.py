"""Deterministic simulation harness for funtracks (see /verif/DESIGN.md)."""
