"""Run one simulation (seed -> world + schedule -> verdict) and batches of them."""
from __future__ import annotations

import hashlib
import json
import random
import time
import traceback

from . import env, gen, world as worldmod

PROP_INDEX = {f"C{i:02d}": i for i in range(1, 21)}


PINNED_BASE = 9_000_000  # fixed cases that every batch of a property executes
SYSTEMATIC_BASE = 5_000_000

# C14: the listed known finding D7 must be met (and printed) by every run of the check:
# a world whose last node has its (truncated) centroid pixel outside its own mask
_PIN_BASE = {"dtype": "int32", "scale": None, "time_key": "time", "pos_mode": "single", "thick3d": False, "ids": "computed", "score": {}, "conf": {}, "enable": [], "subscribers": 1, "sibling": False}
PINNED = {
    # D16: a node added without pixels (position given) on tracks that carry a segmentation
    "C07": [
        {
            "world": dict(_PIN_BASE, ndim=3, shape=[3, 6, 6], seg=True, nodes={"1": {"t": 0, "pix": [[1, 1], [1, 2]]}}, edges=[]),
            "ops": [{"op": "add_node", "t": 1, "track": ["fresh", 0], "id": ["explicit", 2], "force": False, "pix": {}, "pos": [0.5, 0.5, 0.5], "no_pixels_with_pos": True}],
        }
    ],
    # D17: ids recomputed by enable_features, then a history step
    "C10": [
        {
            "world": dict(_PIN_BASE, ndim=3, shape=[4, 6, 6], seg=False, nodes={"1": {"t": 0, "pos": [1.0, 1.0]}, "2": {"t": 1, "pos": [2.0, 2.0]}, "3": {"t": 2, "pos": [3.0, 3.0]}, "4": {"t": 0, "pos": [4.0, 4.0]}, "5": {"t": 1, "pos": [5.0, 5.0]}}, edges=[[1, 2], [2, 3], [4, 5]]),
            "ops": [
                {"op": "delete_edge", "e": ["any", 2]}, {"op": "delete_edge", "e": ["any", 0]},
                {"op": "enable", "keys": ["@track_id", "@lineage_id"], "unknown": False, "allow_ids": True},
                {"op": "undo"}, {"op": "undo"},
            ],
        }
    ],
    "C14": [
        # D23: the position feature switched off, then the internal format
        {
            "world": dict(_PIN_BASE, ndim=3, shape=[2, 6, 6], seg=True, nodes={"1": {"t": 0, "pix": [[1, 1]]}, "2": {"t": 1, "pix": [[2, 2]]}}, edges=[[1, 2]], subscribers=0),
            "ops": [{"op": "disable", "keys": ["@pos"], "unknown": False, "allow_ids": False}, {"op": "reimport", "fmt": "internal"}],
        },
        # the empty solution (reachable: delete every node): CSV round trip (D21-csv, repaired
        # by fec9fa0) and the GEFF channel (known finding D21-geff)
        {
            "world": dict(_PIN_BASE, ndim=3, shape=[2, 6, 6], seg=True, nodes={}, edges=[], subscribers=0),
            "ops": [{"op": "reimport", "fmt": "internal", "allow_empty": True}, {"op": "reimport", "fmt": "csv", "allow_empty": True}],
        },
        {
            "world": dict(_PIN_BASE, ndim=3, shape=[2, 6, 6], seg=True, nodes={}, edges=[], subscribers=0),
            "ops": [{"op": "reimport", "fmt": "geff2", "with_pos": False, "allow_empty": True}],
        },
        {
            "world": {
                "ndim": 3, "shape": [2, 6, 6], "seg": True, "dtype": "int32", "scale": None, "time_key": "time", "pos_mode": "single",
                "thick3d": False, "nodes": {"1": {"t": 0, "pix": [[1, 1], [1, 2]]}, "2": {"t": 1, "pix": [[0, 0], [3, 3]]}},
                "edges": [[1, 2]], "ids": "computed", "score": {}, "conf": {}, "enable": [], "subscribers": 0, "sibling": False,
            },
            "ops": [{"op": "reimport", "fmt": "geff2", "with_pos": True}, {"op": "reimport", "fmt": "geff2", "with_pos": False}, {"op": "reimport", "fmt": "internal"}],
        }
    ]
}
EDIT_KINDS = ["add_node", "delete_node", "add_edge", "delete_edge", "swap", "update_attrs", "paint"]


_WORDS: dict = {}


def sys_len(tier: str) -> int:
    return 8 if tier == "thorough" else 6


def systematic_words(max_len: int = 6) -> list:
    """All words over {E,U,R} of length 1..max_len (1092 for 6, 9840 for 8), shortest
    first, so the quick tier's words are a prefix of the thorough tier's."""
    import itertools

    if max_len in _WORDS:
        return _WORDS[max_len]
    out = _WORDS.setdefault(max_len, [])
    for n in range(1, max_len + 1):
        out += ["".join(w) for w in itertools.product("EUR", repeat=n)]
    return out


def make_case(prop: str, seed: int, idx: int, tier: str) -> dict:
    """Pure function of (prop, seed, idx, tier): the explicit world and operation list."""
    run_seed = env.splitmix64(seed, PROP_INDEX.get(prop, 0), idx)
    rng = random.Random(run_seed)
    cfg = gen.swarm(rng, prop, tier)
    cons = gen.world_constraints(prop)
    w = worldmod.generate(rng, cons)
    if idx >= PINNED_BASE:
        pin = PINNED[prop][idx - PINNED_BASE]
        w, ops = pin["world"], pin["ops"]
        cfg["steps"] = len(ops)
    elif idx >= SYSTEMATIC_BASE:
        # systematic layer of C02: the idx-th {E,U,R}-word, edits drawn from the seeded
        # stream; an edit that the state refuses is retried with up to 3 other edits so the
        # executed word equals the intended one in most runs (the executed word is what
        # the evidence counts)
        word = systematic_words(sys_len(tier))[idx - SYSTEMATIC_BASE]
        cfg["f1"] = 0.0
        ops = []
        for ch in word:
            if ch == "E":
                ops.append({"op": "first_accepted", "tries": [gen.gen_op(rng, cfg, rng.choice(EDIT_KINDS)) for _ in range(4)] + [
                    {"op": "add_node", "t": rng.randrange(12), "track": ["fresh", 0], "id": ["fresh", 0], "force": False, "pix": {"o": [rng.random() for _ in range(3)], "ext": [1, 1, 1], "pat": "single"}, "pos": [rng.random() for _ in range(3)]},
                    {"op": "update_attrs", "n": ["any", rng.randrange(64)], "key": "score", "val": round(rng.random(), 3)},
                ]})
            else:
                ops.append({"op": "undo" if ch == "U" else "redo"})
        cfg["steps"] = len(ops)
    else:
        ops = gen.gen_schedule(rng, cfg)
    return {
        "harness": env.HARNESS_VERSION, "property": prop, "seed": seed, "idx": idx, "run_seed": run_seed,
        "tier": tier, "props": [prop], "opts": {"own": prop, "tier": tier, "query_every": 1 if tier == "thorough" else 5},
        "swarm": {"steps": cfg["steps"], "f1": cfg["f1"], "force": cfg["force"], "weights": {k: round(v, 2) for k, v in cfg["weights"].items() if v}},
        "world": w, "ops": ops,
    }


def run_case(case: dict, keep_log: bool = False) -> dict:
    """Execute a case from scratch. Returns a JSON-able result."""
    from .sim import RunAbort, Sim

    import gc

    t0 = time.perf_counter()
    res = {"violations": [], "aborted": None, "steps": 0, "stats": {}, "probes": {}, "harness_error": None}
    sim = None
    gc_was = gc.isenabled()
    uses_io = any(o["op"] in ("save", "export", "reimport", "restart") for o in case["ops"])
    if uses_io:
        gc.disable()  # collected explicitly at quiescent points, see seams.quiesce_io
    try:
        try:
            sim = Sim(case["world"], set(case["props"]), case.get("opts"))
        except RunAbort as a:
            res["aborted"] = a.reason
            res["abort_detail"] = a.detail
            res["wall"] = time.perf_counter() - t0
            # a violation recorded during construction travels with the exception's sim
            res["violations"] = getattr(a, "violations", [])
            res["known_hits"] = getattr(a, "known_hits", {})
            res["digest"] = hashlib.sha256(repr((a.reason, res["violations"])).encode()).hexdigest()
            return res
        if any(o["op"] in ("save", "export", "reimport", "restart") for o in case["ops"]):
            from . import persist

            sim.io = persist.IO(case)
        try:
            sim.check_initial()
            if not sim.violations:
                for op in case["ops"]:
                    sim.step(op)
                    if sim.violations:
                        break
                sim.finish()
        except RunAbort as a:
            sim.aborted = a.reason
            res["aborted"] = a.reason
            res["abort_detail"] = a.detail
    except Exception as e:  # noqa: BLE001 - anything escaping here is a harness error
        res["harness_error"] = f"{type(e).__name__}: {e}\n{traceback.format_exc()[-1500:]}"
    finally:
        if sim is not None and sim.io is not None:
            from .seams import quiesce_io

            quiesce_io()
            sim.io.cleanup()
        else:
            gc.collect()
        if gc_was:
            gc.enable()
    if sim is not None:
        res["violations"] = [dict(v) for v in sim.violations]
        res["steps"] = sim.step_no + 1
        res["stats"] = sim.stats
        res["probes"] = sim.probes
        res["known_hits"] = sim.known_hits
        res["state_hashes"] = sorted(sim.state_hashes)
        res["cases"] = sorted(sim.cases)
        res["word"] = "".join(sim.word)
        res["digest"] = hashlib.sha256(json.dumps(sim.log, default=repr, sort_keys=True).encode()).hexdigest()
        res["emissions"] = len(sim.emissions)
        if keep_log:
            res["log"] = sim.log
        from . import observe

        res["final_hash"] = observe.state_hash(sim.last_canon)
        res["shape"] = observe.shape_hash(sim.tracks)
        res["restarts"] = sim.restarts
    res["wall"] = time.perf_counter() - t0
    return res


def signature(v: dict) -> tuple:
    return (v["property"], v["oracle"], v["op"])
