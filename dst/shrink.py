"""Deterministic minimisation of a failing case: truncate, ddmin over operations, world
reduction, argument simplification. A candidate is kept only if it fails with the same
signature (property, oracle, operation kind)."""
from __future__ import annotations

import copy

from .runner import run_case, signature


class Shrinker:
    def __init__(self, case: dict, sig: tuple, budget: int = 400):
        self.sig = sig
        self.budget = budget
        self.runs = 0
        self.best = copy.deepcopy(case)
        self.best_res = None

    def fails(self, cand: dict):
        if self.runs >= self.budget:
            return None
        self.runs += 1
        r = run_case(cand)
        if r["harness_error"]:
            return None
        for v in r["violations"]:
            if signature(v) == self.sig:
                return r
        return None

    def accept(self, cand, res):
        self.best = cand
        self.best_res = res

    def run(self):
        base = self.fails(self.best)
        if base is None:
            return self.best, None
        self.best_res = base
        self._truncate()
        self._ddmin_ops()
        self._world()
        self._simplify_args()
        self._ddmin_ops()
        return self.best, self.best_res

    def _truncate(self):
        v = self.best_res["violations"][0]
        step = v["step"]
        ops = self.best["ops"]
        if 0 <= step < len(ops) - 1:
            cand = dict(self.best, ops=ops[: step + 1])
            r = self.fails(cand)
            if r:
                self.accept(cand, r)
        elif step < 0 and ops:
            cand = dict(self.best, ops=[])
            r = self.fails(cand)
            if r:
                self.accept(cand, r)

    def _ddmin_ops(self):
        ops = list(self.best["ops"])
        n = 2
        while len(ops) >= 1 and self.runs < self.budget:
            chunk = max(1, len(ops) // n)
            reduced = False
            i = 0
            while i < len(ops):
                cand_ops = ops[:i] + ops[i + chunk :]
                cand = dict(self.best, ops=cand_ops)
                r = self.fails(cand)
                if r:
                    ops = cand_ops
                    self.accept(cand, r)
                    reduced = True
                else:
                    i += chunk
                if self.runs >= self.budget:
                    break
            if not reduced:
                if chunk == 1:
                    break
                n = min(len(ops), n * 2)
            else:
                n = max(2, n - 1)

    def _world(self):
        w = self.best["world"]
        # drop nodes one at a time (largest id first), then edges, then shrink pixel lists
        for k in sorted(w["nodes"], key=int, reverse=True):
            if self.runs >= self.budget:
                return
            cand = copy.deepcopy(self.best)
            cw = cand["world"]
            del cw["nodes"][k]
            cw["edges"] = [e for e in cw["edges"] if int(k) not in e]
            cw.get("score", {}).pop(k, None)
            cw["conf"] = {ck: v for ck, v in cw.get("conf", {}).items() if k not in ck.split(",")}
            if "adopt" in cw:
                cw["adopt"]["track"].pop(k, None)
                cw["adopt"]["lineage"].pop(k, None)
                if not cw["nodes"]:
                    cw["ids"] = "computed"
            r = self.fails(cand)
            if r:
                self.accept(cand, r)
        for e in list(self.best["world"]["edges"]):
            if self.runs >= self.budget:
                return
            cand = copy.deepcopy(self.best)
            cw = cand["world"]
            if cw["ids"] in ("adopted", "from_tracks+ids"):
                break  # adopted ids must stay consistent with the edges
            cw["edges"].remove(e)
            cw["conf"].pop(f"{e[0]},{e[1]}", None)
            r = self.fails(cand)
            if r:
                self.accept(cand, r)
        for key, val in (("enable", []), ("subscribers", 1), ("score", {}), ("conf", {}), ("scale", None), ("time_key", "time"), ("dtype", "int32")):
            if self.runs >= self.budget:
                return
            if self.best["world"].get(key) == val:
                continue
            if key == "subscribers" and self.best["property"] != "C20" and self.best["world"].get(key) == 0:
                continue
            cand = copy.deepcopy(self.best)
            cand["world"][key] = val
            r = self.fails(cand)
            if r:
                self.accept(cand, r)
        if self.best["world"]["ids"] != "computed":
            cand = copy.deepcopy(self.best)
            cand["world"]["ids"] = "computed"
            cand["world"].pop("adopt", None)
            r = self.fails(cand)
            if r:
                self.accept(cand, r)
        if self.best["world"]["seg"]:
            for k in sorted(self.best["world"]["nodes"], key=int):
                px = self.best["world"]["nodes"][k]["pix"]
                if len(px) > 1 and self.runs < self.budget:
                    cand = copy.deepcopy(self.best)
                    cand["world"]["nodes"][k]["pix"] = px[:1]
                    r = self.fails(cand)
                    if r:
                        self.accept(cand, r)

    def _simplify_args(self):
        for i in range(len(self.best["ops"])):
            op = self.best["ops"][i]
            for key, val in (("force", False), ("reinvert", False), ("whole", False), ("target", None), ("multi", False), ("fault", None), ("subset", None)):
                if self.runs >= self.budget:
                    return
                if key in op and op[key] not in (val, None):
                    cand = copy.deepcopy(self.best)
                    cand["ops"][i][key] = val
                    r = self.fails(cand)
                    if r:
                        self.accept(cand, r)
                        op = self.best["ops"][i]


def shrink(case: dict, sig: tuple, budget: int = 400):
    s = Shrinker(case, sig, budget)
    best, res = s.run()
    return best, res, s.runs
