"""Known-findings file: read-only at run time."""
from __future__ import annotations

import json
import os

from . import env

_cache = None


def load() -> dict:
    global _cache
    if _cache is None:
        p = os.path.join(env.VERIF, "known_findings.json")
        _cache = json.load(open(p)) if os.path.exists(p) else {"known": [], "fixed": []}
    return _cache


def match_known(v: dict, findings: dict | None = None):
    findings = findings or load()
    for k in findings.get("known", []):
        if k["property"] != v["property"] or k["oracle"] != v["oracle"]:
            continue
        if k.get("op") and k["op"] != v["op"]:
            continue
        if not set(k.get("tags_all", [])) <= set(v.get("tags", [])):
            continue
        if k.get("exc") and k["exc"] != v.get("exc"):
            continue
        if k.get("msg_contains") and k["msg_contains"] not in v["msg"]:
            continue
        return k
    return None
