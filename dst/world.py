"""World (initial state) generation and construction.

A world is an explicit JSON description; `generate` draws one from a PRNG under the
constraints of a check profile, `build` turns it into a live SolutionTracks.  Replay files
carry the world verbatim, so shrinking can delete nodes/edges/pixels from it.
"""
from __future__ import annotations

import itertools
import random

import networkx as nx
import numpy as np

from . import models

SHAPE_FEATS = ["ellipse_axis_radii", "circularity", "perimeter"]


def _blob(rng: random.Random, fshape, occupied: np.ndarray, min_thick: int = 1):
    """Return list of coordinate tuples for a new blob on free pixels, or None."""
    nd = len(fshape)
    for _ in range(12):
        kind = rng.choice(["rect", "rect", "L", "scatter", "single"] if min_thick == 1 else ["rect"])
        lo = [rng.randrange(0, s) for s in fshape]
        if kind == "single":
            coords = [tuple(lo)]
        elif kind == "scatter":
            k = rng.randint(2, 4)
            coords = list({tuple(min(s - 1, l + rng.randint(0, 2)) for l, s in zip(lo, fshape)) for _ in range(k)})
        else:
            ext = [rng.randint(min_thick, max(min_thick, 3)) for _ in fshape]
            hi = [min(s, l + e) for l, e, s in zip(lo, ext, fshape)]
            if any(h - l < min_thick for l, h in zip(lo, hi)):
                continue
            coords = list(itertools.product(*[range(l, h) for l, h in zip(lo, hi)]))
            if kind == "L" and len(coords) > 2:
                # knock out a corner block
                drop = set(c for c in coords if all(c[i] >= (lo[i] + hi[i]) / 2 for i in range(nd)))
                if 0 < len(drop) < len(coords):
                    coords = [c for c in coords if c not in drop]
        if not coords:
            continue
        if any(occupied[c] for c in coords):
            continue
        return sorted(coords)
    return None


def generate(rng: random.Random, cons: dict) -> dict:
    """cons keys: seg (True/False/None), ndim (3/4/None), max_nodes, allow_per_axis,
    feats ('none'|'iou'|'any'), empty_ok, thick3d (bool)"""
    seg = cons.get("seg")
    if seg is None:
        seg = rng.random() < cons.get("p_seg", 0.5)
    ndim = cons.get("ndim") or rng.choice([3, 3, 4])
    deep = rng.random() < 0.3  # deeper trees: divisions whose daughters have descendants
    T = rng.randint(5, 6) if deep else rng.randint(2, 6)
    # big: 45-70 detections with the usual sparse "frame * 100000 + label" ids on larger
    # frames; numpy/pandas switch algorithms with size and id range (only drawn where the
    # profile asks for it, so the other profiles' schedules are unchanged)
    big = bool(cons.get("p_big")) and rng.random() < cons["p_big"]
    if big:
        deep = True
        T = rng.randint(4, 6)
    if ndim == 3:
        fshape = (rng.randint(20, 28), rng.randint(20, 28)) if big else (rng.randint(6, 10), rng.randint(6, 10))
    elif big:
        fshape = (rng.randint(4, 6), rng.randint(12, 14), rng.randint(12, 14))
    else:
        fshape = (rng.randint(3, 4), rng.randint(5, 6), rng.randint(5, 6))
    scale_kind = rng.choice(["none", "ones", "aniso", "aniso_t"])
    scale = None if scale_kind == "none" else ([1.0] * ndim if scale_kind == "ones" else [1.0, 2.0, 0.5, 1.5][:ndim])
    if scale_kind == "aniso_t":
        # the scale covers the time axis too: a frame interval other than 1 is legal (and
        # must not leak into anything that uses the frame index)
        scale = [rng.choice([0.5, 2.0, 5.0]), *scale[1:]]
    dtype = rng.choice(["int32", "int32", "uint16", "uint64", "int64"])
    if big and dtype == "uint16":
        dtype = "int32"
    w: dict = {
        "ndim": ndim,
        "shape": [T, *fshape],
        "seg": bool(seg),
        "dtype": dtype,
        "scale": scale,
        "time_key": rng.choice(["time", "time", "t"]),
        "pos_mode": "single",
    }
    if not seg:
        modes = ["single", "single", "renamed"]
        if cons.get("allow_per_axis", True):
            modes.append("per_axis")
        w["pos_mode"] = rng.choice(modes)
    # ---- nodes
    max_nodes = cons.get("max_nodes", 12)
    if cons.get("empty_ok", True) and rng.random() < 0.06:
        n_nodes = 0
    elif big:
        n_nodes = rng.randint(45, 70)
    elif deep:
        n_nodes = rng.randint(8, max_nodes + 4)
    else:
        n_nodes = rng.randint(1, max_nodes)
    id_style = rng.choice(["contig", "contig", "sparse", "large"])
    if big:
        id_style = "frame_label"
    elif seg and dtype == "uint16" and rng.random() < 0.4:
        # ids whose products are multiples of 2**16: arithmetic done in the label dtype wraps
        id_style = "mult256"
    per_frame = [0] * T
    pos_int_first = (not seg) and rng.random() < 0.2
    occupied = np.zeros((T, *fshape), dtype=bool)
    nodes: dict = {}
    nid = 256 if id_style == "mult256" else 1 if id_style != "large" else rng.randint(200, 900)
    if not seg and not big and id_style == "contig" and rng.random() < 0.3:
        nid = 0  # node id 0 is an ordinary id without a label array ("if node:" is a classic)
    w["thick3d"] = bool(seg and ndim == 4 and rng.random() < 0.5)
    thick = 2 if w["thick3d"] else 1
    for _ in range(n_nodes):
        t = rng.randrange(T)
        if id_style == "frame_label":
            per_frame[t] += 1
            nid = (t + 1) * 100000 + per_frame[t]
        if seg:
            coords = _blob(rng, fshape, occupied[t], thick)
            if coords is None:
                continue
            for c in coords:
                occupied[t][c] = True
            nodes[str(nid)] = {"t": t, "pix": [list(c) for c in coords]}
        else:
            nodes[str(nid)] = {"t": t, "pos": [float(rng.randint(0, 2 * s)) / 2 for s in fshape]}
            if pos_int_first:
                # the first coordinate is a whole number stored as int (a plane or row index)
                nodes[str(nid)]["pos"][0] = int(nodes[str(nid)]["pos"][0])
        if id_style == "mult256":
            nid += 256
        elif id_style != "frame_label":
            nid += 1 if id_style == "contig" else rng.choice([1, 2, 5, 17])
    w["nodes"] = nodes
    if big:
        w["big"] = True
    # ---- edges: random forward forest with divisions and skip edges
    ids = sorted(int(k) for k in nodes)
    tt = {n: nodes[str(n)]["t"] for n in ids}
    outdeg = {n: 0 for n in ids}
    edges = []
    p_edge = 0.97 if deep else rng.choice([0.5, 0.8, 0.95])
    order = ids[:]
    rng.shuffle(order)
    for v in order:
        cands = [u for u in ids if tt[u] < tt[v] and tt[v] - tt[u] <= 3 and outdeg[u] < 2]
        if cands and rng.random() < p_edge:
            # prefer adjacent frames but allow skips
            cands.sort(key=lambda u: (tt[v] - tt[u], u))
            u = cands[0] if rng.random() < 0.5 else rng.choice(cands)
            edges.append([u, v])
            outdeg[u] += 1
    w["edges"] = sorted(edges)
    # ---- ids on the graph
    # from_tracks: built as a plain Tracks first, then SolutionTracks.from_tracks(); the
    # "+ids" flavour carries valid track/lineage ids on the graph already
    w["ids"] = rng.choice(["computed", "computed", "adopted", "featuredict", "from_tracks", "from_tracks+ids"])
    if w["ids"] in ("adopted", "from_tracks+ids") and ids:
        g = nx.DiGraph()
        g.add_nodes_from(ids)
        g.add_edges_from(edges)
        # (1, -1): ids start at 0, a legal value that "if id:" style code mishandles
        mul, off = rng.choice([(1, 0), (3, 2), (7, 10), (37, 200), (1, -1)])
        segs = sorted(models.segments(g), key=lambda b: min(b))
        comps = sorted(models.components(g), key=lambda b: min(b))
        perm_s = list(range(1, len(segs) + 1))
        perm_c = list(range(1, len(comps) + 1))
        rng.shuffle(perm_s)
        rng.shuffle(perm_c)
        w["adopt"] = {
            "track": {str(n): perm_s[i] * mul + off for i, b in enumerate(segs) for n in b},
            "lineage": {str(n): perm_c[i] * mul + off for i, b in enumerate(comps) for n in b},
        }
    elif w["ids"] in ("adopted", "from_tracks+ids"):
        w["ids"] = "computed"
    # ---- custom static features on a subset of elements
    # falsy values (0.0) on purpose: "if val:" instead of "if val is not None:" is a classic
    # (None: an attribute that is present with the value None - how many pipelines mark a
    # missing measurement - next to nodes that do not carry the attribute at all)
    w["score"] = {str(n): rng.choice([0.0, round(rng.random(), 3), round(rng.random(), 3), round(rng.random(), 3), None]) for n in ids if rng.random() < 0.6}
    w["conf"] = {f"{u},{v}": rng.choice([0.0, round(rng.random(), 3), round(rng.random(), 3)]) for u, v in edges if rng.random() < 0.6}
    # ---- initially enabled optional features
    enable = []
    fm = cons.get("feats", "any")
    if seg and fm != "none":
        if fm == "iou" or rng.random() < 0.5:
            enable.append("iou")
        if fm == "any":
            for k in SHAPE_FEATS:
                if rng.random() < 0.3 and shape_feature_supported(w, k):
                    enable.append(k)
    w["enable"] = enable
    w["subscribers"] = rng.choice([0, 1, 1, 2])
    # a second, independently edited solution in the same process (state kept on a class
    # instead of the instance shows up as cross-talk between the two)
    w["sibling"] = rng.random() < 0.3
    # a client that hands numpy scalars to the actions (ids read from a label array, times
    # and track ids from array columns) instead of Python ints
    w["np_client"] = rng.random() < 0.2
    # non-default attribute names for the two id features (tracklet_attr= / lineage_attr=)
    w["id_keys"] = rng.choice(["default"] * 4 + ["renamed"])
    # memory layout of the label array the caller hands over: C-contiguous, Fortran order
    # (a y,x,t stack made time-first with moveaxis), or a strided crop of a larger array
    w["seg_layout"] = rng.choice(["C", "C", "C", "F", "crop"]) if seg else "C"
    # positions handed over as numpy arrays instead of lists (the docstring allows both)
    # the optional custom feature is registered with a default value other than None
    w["score_default"] = rng.choice([None, None, 0.5])
    w["pos_array"] = (not seg) and w["pos_mode"] != "per_axis" and rng.random() < 0.25
    return w


def shape_feature_supported(w: dict, key: str) -> bool:
    """Configurations a dependency cannot compute at all (DESIGN §4 C08)."""
    aniso = w["scale"] is not None and len(set(w["scale"][1:])) > 1
    if w["ndim"] == 3 and aniso and key in ("perimeter", "circularity"):
        return False  # skimage: perimeter supports isotropic spacings only
    if w["ndim"] == 4 and key == "ellipse_axis_radii" and not w.get("thick3d"):
        # math.sqrt of a rounding-negative radicand on flat/linear masks: only enabled in
        # worlds whose initial masks are >= 2 voxels thick; a run that still meets the
        # exception (after a thin stroke) is discarded as dependency_abort
        return False
    return True


def axis_names(ndim):
    return ["z", "y", "x"] if ndim == 4 else ["y", "x"]


def build(w: dict):
    """Construct (tracks, info) from a world description."""
    from funtracks.data_model import SolutionTracks

    ndim = w["ndim"]
    shape = tuple(w["shape"])
    tkey = w["time_key"]
    g = nx.DiGraph()
    seg = np.zeros(shape, dtype=np.dtype(w["dtype"])) if w["seg"] else None
    if seg is not None and w.get("seg_layout") == "F":
        seg = np.asfortranarray(seg)
    elif seg is not None and w.get("seg_layout") == "crop":
        seg = np.zeros((shape[0], *[x + 2 for x in shape[1:]]), dtype=np.dtype(w["dtype"]))[(slice(None), *[slice(1, -1)] * (len(shape) - 1))]
    pos_mode = w["pos_mode"]
    ax = axis_names(ndim)
    renamed = w.get("id_keys") == "renamed"
    trk_key, lin_key = ("tracklet", "lin") if renamed else ("track_id", "lineage_id")
    idk = {"tracklet_attr": trk_key, "lineage_attr": lin_key} if renamed else {}
    for k in sorted(w["nodes"], key=int):
        nd = w["nodes"][k]
        n = int(k)
        attrs = {tkey: nd["t"]}
        if w["seg"]:
            for c in nd["pix"]:
                seg[(nd["t"], *c)] = n
        else:
            if pos_mode == "per_axis":
                for a, v in zip(ax, nd["pos"]):
                    attrs[a] = v
            elif pos_mode == "renamed":
                attrs["loc"] = np.array(nd["pos"]) if w.get("pos_array") else list(nd["pos"])
            else:
                attrs["pos"] = np.array(nd["pos"]) if w.get("pos_array") else list(nd["pos"])
        if w["ids"] in ("adopted", "from_tracks+ids"):
            attrs[trk_key] = w["adopt"]["track"][k]
            attrs[lin_key] = w["adopt"]["lineage"][k]
        if k in w.get("score", {}):
            attrs["score"] = w["score"][k]
        g.add_node(n, **attrs)
    for u, v in w["edges"]:
        ea = {}
        ck = f"{u},{v}"
        if ck in w.get("conf", {}):
            ea["conf"] = w["conf"][ck]
        g.add_edge(int(u), int(v), **ea)
    pos_attr = None
    if not w["seg"]:
        pos_attr = {"single": "pos", "renamed": "loc", "per_axis": list(ax)}[pos_mode]
    scale = None if w["scale"] is None else list(w["scale"])
    if w["ids"].startswith("from_tracks"):
        from funtracks.data_model import Tracks

        plain = Tracks(g, segmentation=seg, time_attr=tkey, pos_attr=pos_attr, scale=scale, ndim=ndim, **idk)
        tracks = SolutionTracks.from_tracks(plain)
    else:
        tracks = SolutionTracks(
            g, segmentation=seg, time_attr=tkey, pos_attr=pos_attr, scale=scale, ndim=ndim, **idk
        )
    register_custom(tracks, w.get("score_default"))
    if w["enable"]:
        tracks.enable_features(list(w["enable"]))
    if w["ids"] == "featuredict":
        tracks = SolutionTracks(
            tracks.graph,
            segmentation=tracks.segmentation,
            scale=scale,
            ndim=ndim,
            features=tracks.features,
        )
    return tracks


def register_custom(tracks, score_default=None):
    from funtracks.features import Feature

    if "score" not in tracks.features:
        tracks.features["score"] = Feature(
            feature_type="node", value_type="float", num_values=1,
            display_name="Score", required=False, default_value=score_default,
        )
    if "conf" not in tracks.features:
        tracks.features["conf"] = Feature(
            feature_type="edge", value_type="float", num_values=1,
            display_name="Conf", required=False, default_value=None,
        )
