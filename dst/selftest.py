"""Self-tests of the harness: determinism (same seed => same event log, across
processes, hash seeds and pool sizes) and sensitivity (mutants must be caught)."""
from __future__ import annotations

import concurrent.futures as cf
import glob
import json
import multiprocessing as mp
import os
import shutil
import subprocess
import sys
import time

PROPS = ["C01", "C02", "C03", "C04", "C05", "C06", "C07", "C08", "C09", "C10", "C11", "C14", "C15", "C16", "C20"]


def _digests(args):
    from . import env, runner

    env.boot()
    prop, seed, idxs = args
    out = {}
    for idx in idxs:
        r = runner.run_case(runner.make_case(prop, seed, idx, "quick"))
        out[f"{prop}:{idx}"] = (r.get("digest"), r.get("final_hash"), r["harness_error"])
    return out


def digests_cmd(argv):
    """Internal: print digests as JSON (used for the fresh-interpreter comparison)."""
    props = argv[0].split(",")
    seed = int(argv[1])
    n = int(argv[2])
    jobs = int(argv[3])
    tasks = [(p, seed, list(range(20_000 + i, 20_000 + n, jobs))) for p in props for i in range(jobs)]
    res = {}
    if jobs == 1:
        for t in tasks:
            res.update(_digests(t))
    else:
        with cf.ProcessPoolExecutor(max_workers=jobs, mp_context=mp.get_context("fork")) as ex:
            for r in ex.map(_digests, tasks):
                res.update(r)
    print("DIGESTS " + json.dumps(res, sort_keys=True))
    return 0


def _fresh(props, seed, n, jobs, hashseed):
    from . import env

    envv = dict(os.environ, PYTHONHASHSEED=str(hashseed), VERIF_HASHSEED=str(hashseed))
    p = subprocess.run(
        [os.path.join(env.VERIF, "check"), "selftest", "_digests", ",".join(props), str(seed), str(n), str(jobs)],
        capture_output=True, text=True, env=envv, timeout=3000,
    )
    for line in p.stdout.splitlines():
        if line.startswith("DIGESTS "):
            return json.loads(line[8:])
    raise RuntimeError(f"digest subprocess failed: {p.stdout[-500:]} {p.stderr[-1500:]}")


def determinism(props=None, n=6, seed=7, verbose=True):
    """Every (property, idx): twice in this process, fresh interpreter with hash seed 0
    and pool of 1, fresh interpreter with another hash seed and pool of 16."""
    from . import env, runner

    env.boot()
    props = props or PROPS
    t0 = time.time()
    here = {}
    for p in props:
        for idx in range(20_000, 20_000 + n):
            a = runner.run_case(runner.make_case(p, seed, idx, "quick"))
            b = runner.run_case(runner.make_case(p, seed, idx, "quick"))
            if a.get("digest") != b.get("digest") or a["harness_error"]:
                print(f"HARNESS-ERROR: nondeterministic within one process: {p} idx {idx} {a['harness_error'] or ''}")
                return 2
            here[f"{p}:{idx}"] = [a.get("digest"), a.get("final_hash"), a["harness_error"]]
    one = _fresh(props, seed, n, 1, 0)
    many = _fresh(props, seed, n, 16, 4242)
    bad = [k for k in here if here[k] != one.get(k) or here[k] != many.get(k)]
    if bad:
        print(f"HARNESS-ERROR: digests differ across interpreters/hash seeds/pool sizes for {bad[:5]}")
        for k in bad[:3]:
            print(f"  {k}: in-process {here[k]} | fresh hashseed=0 pool=1 {one.get(k)} | fresh hashseed=4242 pool=16 {many.get(k)}")
        return 2
    if verbose:
        print(f"determinism ok: {len(here)} runs x (2 in-process + fresh PYTHONHASHSEED=0 pool=1 + fresh PYTHONHASHSEED=4242 pool=16) in {time.time() - t0:.1f}s")
    return 0


def setup():
    from . import env

    env.boot()
    import funtracks

    print("funtracks from", funtracks.__file__)
    return determinism(n=2)


# ------------------------------------------------------------------ mutants
def load_mutants():
    import importlib.util

    from . import env

    spec = importlib.util.spec_from_file_location("verif_mutants", os.path.join(env.VERIF, "selftest", "mutants.py"))
    mod = importlib.util.module_from_spec(spec)
    spec.loader.exec_module(mod)
    return mod.M


def scratch_copy(tag: str) -> str:
    from . import env

    scratch = os.path.join(env.SCRATCH_ROOT, f"funtracks-mutant-{os.getpid()}-{tag}")
    shutil.rmtree(scratch, ignore_errors=True)
    os.makedirs(scratch)
    shutil.copytree(os.path.join(env.REPO, "src"), os.path.join(scratch, "src"))
    return scratch


def run_checks_on(scratch: str, props: list, runs: int | None = None, tier: str = "quick") -> dict:
    from . import env

    out = {}
    for prop in props:
        envv = dict(os.environ, VERIF_REPO=scratch, VERIF_EVIDENCE_DIR=os.path.join(scratch, "evidence"), VERIF_REPLAY_DIR=os.path.join(scratch, "replays"), VERIF_SHRINK_BUDGET="60")
        if runs:
            envv["VERIF_RUNS"] = str(runs)
        r = subprocess.run([os.path.join(env.VERIF, "check"), prop, tier], capture_output=True, text=True, env=envv, timeout=3000)
        lines = [line for line in r.stdout.splitlines() if line.startswith(("VIOLATION", "HARNESS", "  oracle", "KNOWN"))]
        out[prop] = (r.returncode, lines, r.stdout[-300:] + r.stderr[-300:])
    return out


def run_mutant(mut: dict, props: list, runs: int | None = None) -> dict:
    scratch = scratch_copy(mut["name"][:40])
    try:
        path = os.path.join(scratch, "src", "funtracks", mut["file"])
        src = open(path).read()
        if src.count(mut["old"]) != 1:
            return {"_patch_failed": (1, f"pattern occurs {src.count(mut['old'])} times in {mut['file']}")}
        open(path, "w").write(src.replace(mut["old"], mut["new"]))
        return run_checks_on(scratch, props, runs)
    finally:
        shutil.rmtree(scratch, ignore_errors=True)


def _one_mutant(mut):
    t0 = time.time()
    res = run_mutant(mut, [mut["prop"]])
    return mut, res, time.time() - t0


def mutants(argv):
    muts = load_mutants()
    if argv:
        muts = [x for x in muts if any(a in x["name"] for a in argv)]
    failed = 0
    # checks use all cores themselves; run mutants two at a time
    with cf.ThreadPoolExecutor(max_workers=int(os.environ.get("VERIF_MUTANT_JOBS", "2"))) as ex:
        for mut, res, dt in ex.map(_one_mutant, muts):
            name, prop = mut["name"], mut["prop"]
            if "_patch_failed" in res:
                print(f"MUTANT {name}: does not apply: {res['_patch_failed'][1][:200]}")
                failed += 1
                continue
            rc, lines, tail = res[prop]
            caught = rc == 1 and any(line.startswith(f"VIOLATION property={prop}") for line in lines)
            detail = next((ln.strip()[:170] for ln in lines if ln.startswith("  oracle")), tail[-200:].replace("\n", " "))
            print(f"MUTANT {name}: {'caught' if caught else 'MISSED'} by {prop} quick (rc={rc}, {dt:.0f}s) {detail}", flush=True)
            if not caught:
                failed += 1
    print(f"mutants: {len(muts) - failed}/{len(muts)} caught")
    return 0 if failed == 0 else 2


def main(argv):
    if not argv:
        print("selftest determinism|mutants [name...]")
        return 2
    if argv[0] == "_digests":
        return digests_cmd(argv[1:])
    if argv[0] == "determinism":
        return determinism(n=int(argv[1]) if len(argv) > 1 else 6)
    if argv[0] == "mutants":
        return mutants(argv[1:])
    return 2
