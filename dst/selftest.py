"""Self-tests of the harness: determinism (same seed => same event log, across
processes, hash seeds and pool sizes) and sensitivity (mutants must be caught)."""
from __future__ import annotations

import concurrent.futures as cf
import glob
import json
import multiprocessing as mp
import os
import shutil
import subprocess
import sys
import time

PROPS = ["C01", "C02", "C03", "C04", "C05", "C06", "C07", "C08", "C09", "C10", "C11", "C14", "C15", "C16", "C20"]


def _digests(args):
    from . import env, runner

    env.boot()
    prop, seed, idxs = args
    out = {}
    for idx in idxs:
        r = runner.run_case(runner.make_case(prop, seed, idx, "quick"))
        out[f"{prop}:{idx}"] = (r.get("digest"), r.get("final_hash"), r["harness_error"])
    return out


def digests_cmd(argv):
    """Internal: print digests as JSON (used for the fresh-interpreter comparison)."""
    props = argv[0].split(",")
    seed = int(argv[1])
    n = int(argv[2])
    jobs = int(argv[3])
    tasks = [(p, seed, list(range(20_000 + i, 20_000 + n, jobs))) for p in props for i in range(jobs)]
    res = {}
    if jobs == 1:
        for t in tasks:
            res.update(_digests(t))
    else:
        with cf.ProcessPoolExecutor(max_workers=jobs, mp_context=mp.get_context("fork")) as ex:
            for r in ex.map(_digests, tasks):
                res.update(r)
    print("DIGESTS " + json.dumps(res, sort_keys=True))
    return 0


def _fresh(props, seed, n, jobs, hashseed):
    from . import env

    envv = dict(os.environ, PYTHONHASHSEED=str(hashseed), VERIF_HASHSEED=str(hashseed))
    p = subprocess.run(
        [os.path.join(env.VERIF, "check"), "selftest", "_digests", ",".join(props), str(seed), str(n), str(jobs)],
        capture_output=True, text=True, env=envv, timeout=3000,
    )
    for line in p.stdout.splitlines():
        if line.startswith("DIGESTS "):
            return json.loads(line[8:])
    raise RuntimeError(f"digest subprocess failed: {p.stdout[-500:]} {p.stderr[-1500:]}")


def determinism(props=None, n=6, seed=7, verbose=True):
    """Every (property, idx): twice in this process, fresh interpreter with hash seed 0
    and pool of 1, fresh interpreter with another hash seed and pool of 16."""
    from . import env, runner

    env.boot()
    props = props or PROPS
    t0 = time.time()
    here = {}
    for p in props:
        for idx in range(20_000, 20_000 + n):
            a = runner.run_case(runner.make_case(p, seed, idx, "quick"))
            b = runner.run_case(runner.make_case(p, seed, idx, "quick"))
            if a.get("digest") != b.get("digest") or a["harness_error"]:
                print(f"HARNESS-ERROR: nondeterministic within one process: {p} idx {idx} {a['harness_error'] or ''}")
                return 2
            here[f"{p}:{idx}"] = [a.get("digest"), a.get("final_hash"), a["harness_error"]]
    one = _fresh(props, seed, n, 1, 0)
    many = _fresh(props, seed, n, 16, 4242)
    bad = [k for k in here if here[k] != one.get(k) or here[k] != many.get(k)]
    if bad:
        print(f"HARNESS-ERROR: digests differ across interpreters/hash seeds/pool sizes for {bad[:5]}")
        return 2
    if verbose:
        print(f"determinism ok: {len(here)} runs x (2 in-process + fresh PYTHONHASHSEED=0 pool=1 + fresh PYTHONHASHSEED=4242 pool=16) in {time.time() - t0:.1f}s")
    return 0


def setup():
    from . import env

    env.boot()
    import funtracks

    print("funtracks from", funtracks.__file__)
    return determinism(n=2)


# ------------------------------------------------------------------ mutants
def run_mutant(patch: str, props: list, runs: int | None = None) -> dict:
    """Apply patch to a scratch copy of /repo/src, run the quick checks of `props` with
    VERIF_REPO pointing there. Returns {prop: (rc, violation lines)}."""
    from . import env

    scratch = os.path.join(env.SCRATCH_ROOT, f"funtracks-mutant-{os.getpid()}-{abs(hash(patch)) & 0xFFFF:x}")
    shutil.rmtree(scratch, ignore_errors=True)
    os.makedirs(scratch)
    try:
        shutil.copytree(os.path.join(env.REPO, "src"), os.path.join(scratch, "src"))
        p = subprocess.run(["patch", "-p1", "-d", scratch, "-i", os.path.abspath(patch), "--no-backup-if-mismatch"], capture_output=True, text=True)
        if p.returncode != 0:
            return {"_patch_failed": (p.returncode, p.stdout + p.stderr)}
        out = {}
        for prop in props:
            envv = dict(os.environ, VERIF_REPO=scratch, VERIF_EVIDENCE_DIR=os.path.join(scratch, "evidence"), VERIF_REPLAY_DIR=os.path.join(scratch, "replays"))
            if runs:
                envv["VERIF_RUNS"] = str(runs)
            r = subprocess.run([os.path.join(env.VERIF, "check"), prop, "quick"], capture_output=True, text=True, env=envv, timeout=3000)
            lines = [line for line in r.stdout.splitlines() if line.startswith(("VIOLATION", "HARNESS", "  oracle"))]
            out[prop] = (r.returncode, lines)
        return out
    finally:
        shutil.rmtree(scratch, ignore_errors=True)


def mutants(argv):
    from . import env

    pats = sorted(glob.glob(os.path.join(env.VERIF, "selftest", "mutants", "*.patch")))
    if argv:
        pats = [p for p in pats if any(a in os.path.basename(p) for a in argv)]
    failed = 0
    for pth in pats:
        name = os.path.basename(pth)
        prop = name.split("-")[0]
        t0 = time.time()
        res = run_mutant(pth, [prop])
        if "_patch_failed" in res:
            print(f"MUTANT {name}: patch does not apply: {res['_patch_failed'][1][:200]}")
            failed += 1
            continue
        rc, lines = res[prop]
        caught = rc == 1 and any(line.startswith(f"VIOLATION property={prop}") for line in lines)
        print(f"MUTANT {name}: {'caught' if caught else 'MISSED'} by {prop} quick (rc={rc}, {time.time() - t0:.0f}s) {lines[1][:160] if caught and len(lines) > 1 else ''}")
        if not caught:
            failed += 1
    print(f"mutants: {len(pats) - failed}/{len(pats)} caught")
    return 0 if failed == 0 else 2


def main(argv):
    if not argv:
        print("selftest determinism|mutants [name...]")
        return 2
    if argv[0] == "_digests":
        return digests_cmd(argv[1:])
    if argv[0] == "determinism":
        return determinism(n=int(argv[1]) if len(argv) > 1 else 6)
    if argv[0] == "mutants":
        return mutants(argv[1:])
    return 2
