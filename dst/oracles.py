"""State oracles. Each returns a list of (oracle_id, message) for the current state.

They read the live tracks object through its public API and the raw graph/array and
compare with the reference models of models.py. None of them mutates the tracks."""
from __future__ import annotations

import math

import networkx as nx
import numpy as np

from . import models


def _tkey(tr):
    return tr.features.time_key


# ------------------------------------------------------------------ C03
def structure(tr) -> list:
    g = tr.graph
    tk = _tkey(tr)
    out = []
    for n in g.nodes:
        if g.in_degree(n) > 1:
            out.append(("C03.degree", f"node {n} has {g.in_degree(n)} parents"))
        if g.out_degree(n) > 2:
            out.append(("C03.degree", f"node {n} has {g.out_degree(n)} children"))
    for u, v in g.edges:
        tu, tv = g.nodes[u].get(tk), g.nodes[v].get(tk)
        if tu is None or tv is None or not tu < tv:
            out.append(("C03.time_order", f"edge {(u, v)} goes from t={tu} to t={tv}"))
    return out


# ------------------------------------------------------------------ C04 / C05
def track_partition(tr, key=None) -> list:
    key = tr.features.tracklet_key if key is None else key
    ident = {n: tr.graph.nodes[n].get(key) for n in tr.graph.nodes}
    m = models.partition_mismatch(models.segments(tr.graph), ident)
    return [("C04.partition", m)] if m else []


def lineage_partition(tr, key=None) -> list:
    key = tr.features.lineage_key if key is None else key
    ident = {n: tr.graph.nodes[n].get(key) for n in tr.graph.nodes}
    m = models.partition_mismatch(models.components(tr.graph), ident)
    return [("C05.partition", m)] if m else []


def frame_clause(pre_g: nx.DiGraph, pre_ids: dict, tr, key: str, named: set, prop: str) -> list:
    """Nodes whose component holds no named node in pre AND in post keep their id."""
    post_g = tr.graph
    touched_pre = set()
    for c in nx.weakly_connected_components(pre_g):
        if c & named:
            touched_pre |= c
    touched_post = set()
    for c in nx.weakly_connected_components(post_g):
        if c & named:
            touched_post |= c
    out = []
    for n in post_g.nodes:
        if n in pre_ids and n not in touched_pre and n not in touched_post:
            now = post_g.nodes[n].get(key)
            if now != pre_ids[n]:
                out.append((f"{prop}.frame", f"node {n} outside every named component changed {key} {pre_ids[n]} -> {now}"))
    return out


# ------------------------------------------------------------------ C06
def lookups(tr, which=("tracklet", "lineage"), keys=None) -> list:
    """`keys`: (track id attribute, lineage id attribute or None) as the client knows them
    to be managed; without it the object is asked."""
    ta = tr.track_annotator
    g = tr.graph
    out = []
    for name, cache, key in (
        ("tracklet", ta.tracklet_id_to_nodes, tr.features.tracklet_key if keys is None else keys[0]),
        ("lineage", ta.lineage_id_to_nodes, tr.features.lineage_key if keys is None else keys[1]),
    ):
        if name not in which or key is None or (keys is None and key not in tr.annotators.features):
            continue
        scan = models.scan_groups(g, key)
        for k, v in cache.items():
            if sorted(v) != sorted(scan.get(k, [])):
                out.append(("C06.lookup", f"{name} lookup[{k}]={sorted(v)} but graph has {sorted(scan.get(k, []))}"))
        for k in scan:
            if k not in cache:
                out.append(("C06.lookup", f"{name} lookup misses id {k} carried by {sorted(scan[k])}"))
    tkey = tr.features.tracklet_key if keys is None else keys[0]
    if (keys is not None or tkey in tr.annotators.features) and "tracklet" in which:
        used = {d.get(tkey) for _, d in g.nodes(data=True)}
        nxt = tr.get_next_track_id()
        if nxt in used:
            out.append(("C06.next_id", f"next track id {nxt} is in use"))
    lkey = tr.features.lineage_key if keys is None else keys[1]
    if lkey is not None and (keys is not None or lkey in tr.annotators.features) and "lineage" in which:
        used = {d.get(lkey) for _, d in g.nodes(data=True)}
        nxt = tr.get_next_lineage_id()
        if nxt in used:
            out.append(("C06.next_id", f"next lineage id {nxt} is in use"))
    return out


def queries(tr, T: int, extra_ids=()) -> list:
    g = tr.graph
    tkey = tr.features.tracklet_key
    tk = _tkey(tr)
    if tkey not in tr.annotators.features:
        return []
    out = []
    ids = sorted({d.get(tkey) for _, d in g.nodes(data=True)} - {None}) + list(extra_ids)
    # a track with two nodes in one frame cannot occur when C04 holds; skip those ids
    for tid in ids:
        times = [d[tk] for _, d in g.nodes(data=True) if d.get(tkey) == tid]
        dup = len(times) != len(set(times))
        for t in range(-1, T + 1):
            want = t in times
            got = tr.has_track_id_at_time(tid, t)
            if bool(got) != want:
                out.append(("C06.at_time", f"has_track_id_at_time({tid},{t})={got}, scan says {want}"))
            if dup:
                continue
            pred, succ = tr.get_track_neighbors(tid, t)
            rp, rs = models.scan_neighbors(g, tkey, tk, tid, t)
            okp = (pred is None and rp is None) or (rp is not None and pred in rp)
            oks = (succ is None and rs is None) or (rs is not None and succ in rs)
            if not (okp and oks):
                out.append(("C06.neighbors", f"get_track_neighbors({tid},{t})={(pred, succ)}, scan says {(rp, rs)}"))
        if len(out) > 3:
            break
    return out


# ------------------------------------------------------------------ C07
def seg_correspondence(tr) -> list:
    seg = tr.segmentation
    if seg is None:
        return []
    g = tr.graph
    tk = _tkey(tr)
    out = []
    T = seg.shape[0]
    per_frame = [set(np.unique(seg[t]).tolist()) - {0} for t in range(T)]
    for t in range(T):
        for lab in per_frame[t]:
            if lab not in g.nodes:
                out.append(("C07.label_node", f"label {lab} in frame {t} belongs to no node"))
            elif g.nodes[lab].get(tk) != t:
                out.append(("C07.frame", f"node {lab} (t={g.nodes[lab].get(tk)}) labels pixels in frame {t}"))
    for n in g.nodes:
        t = g.nodes[n].get(tk)
        if t is None or not (0 <= t < T) or n not in per_frame[t]:
            out.append(("C07.label_node", f"node {n} (t={t}) labels no pixel in its frame"))
            continue
        px = tr.get_pixels(n)
        ref = np.nonzero(seg[t] == n)
        ok = (
            px is not None
            and len(px) == seg.ndim
            and np.array_equal(np.asarray(px[0]), np.full(len(ref[0]), t))
            and all(np.array_equal(np.asarray(a), b) for a, b in zip(px[1:], ref))
        )
        if not ok:
            out.append(("C07.pixels", f"get_pixels({n}) differs from the array scan"))
    return out


# ------------------------------------------------------------------ C08
def _close(a, b, tol):
    if a is None or b is None:
        return a is None and b is None
    try:
        a = float(a)
        b = float(b)
    except (TypeError, ValueError):
        return False
    if math.isnan(a) or math.isnan(b):
        return math.isnan(a) and math.isnan(b)
    if math.isinf(a) or math.isinf(b):
        return a == b
    return abs(a - b) <= tol * max(1.0, abs(b))


def node_measurements(tr, keys=None, prop="C08", active=None) -> list:
    """area / pos vs numpy reference for enabled keys (or the given keys). `active` is the
    client's view of what is enabled (successful enable/disable calls); it defaults to the
    library's own flags."""
    seg = tr.segmentation
    if seg is None:
        return []
    active = set(tr.annotators.features) if active is None else set(active)
    pos_key = tr.features.position_key
    out = []
    tk = _tkey(tr)
    want_area = "area" in active and (keys is None or "area" in keys)
    want_pos = isinstance(pos_key, str) and pos_key in active and (keys is None or pos_key in keys)
    if not (want_area or want_pos):
        return out
    for n, d in tr.graph.nodes(data=True):
        t = d.get(tk)
        m = seg[t] == n
        if not m.any():
            continue  # C07's business
        if want_area:
            ref = models.ref_area(m, tr.scale)
            got = d.get("area")
            if not _close(got, ref, 1e-9):
                out.append((f"{prop}.area", f"node {n}: stored area {got}, mask says {ref}"))
        if want_pos:
            ref = models.ref_centroid(m, tr.scale)
            got = d.get(pos_key)
            ok = got is not None and len(got) == len(ref) and all(_close(x, y, 1e-9) for x, y in zip(got, ref))
            if not ok:
                out.append((f"{prop}.pos", f"node {n}: stored position {got}, mask says {ref}"))
        if len(out) > 3:
            break
    return out


def fresh_bulk(tr, keys: list):
    """From-scratch computation on a copy of the same array: a new SolutionTracks over a
    bare copy of the graph with the same keys bulk-enabled."""
    from funtracks.data_model import SolutionTracks

    tk = _tkey(tr)
    g = nx.DiGraph()
    for n, d in tr.graph.nodes(data=True):
        g.add_node(n, **{tk: d[tk]})
    g.add_edges_from(tr.graph.edges)
    scale = None if tr.scale is None else list(tr.scale)
    fresh = SolutionTracks(g, segmentation=tr.segmentation.copy(), time_attr=tk, scale=scale, ndim=tr.ndim)
    if keys:
        fresh.enable_features(list(keys))
    return fresh


def _same_exact(a, b):
    if a is None or b is None:
        return a is None and b is None
    if isinstance(a, (list, tuple, np.ndarray)) or isinstance(b, (list, tuple, np.ndarray)):
        try:
            return len(a) == len(b) and all(_same_exact(x, y) for x, y in zip(a, b))
        except TypeError:
            return False
    try:
        fa, fb = float(a), float(b)
    except (TypeError, ValueError):
        return a == b
    if math.isnan(fa) or math.isnan(fb):
        return math.isnan(fa) and math.isnan(fb)
    return fa == fb


def shape_features(tr, keys=None, prop="C08", active=None) -> list:
    seg = tr.segmentation
    if seg is None:
        return []
    active = set(tr.annotators.features) if active is None else set(active)
    ks = [k for k in ("ellipse_axis_radii", "circularity", "perimeter") if k in active and (keys is None or k in keys)]
    if not ks:
        return []
    fresh = fresh_bulk(tr, ks)
    out = []
    names = None
    for ann in tr.annotators:
        if hasattr(ann, "regionprops_names"):
            names = ann.regionprops_names
    spacing = None if tr.scale is None else tuple(tr.scale[1:])
    for n, d in tr.graph.nodes(data=True):
        frame = seg[d[_tkey(tr)]]
        if not (frame == n).any():
            continue
        for k in ks:
            got = d.get(k)
            ref = fresh.graph.nodes[n].get(k)
            if not _same_exact(got, ref):
                out.append((f"{prop}.shape", f"node {n}: stored {k}={got}, from-scratch computation gives {ref}"))
        if names is not None and not out:
            # second reference: the same measurement on the node's mask alone, so that no
            # other label of the frame can leak into it ("from the node's current mask")
            from funtracks.annotators._regionprops_extended import regionprops_extended

            regions = regionprops_extended(np.where(frame == n, n, 0), spacing=spacing)
            if len(regions) == 1:
                for k in ks:
                    ref2 = getattr(regions[0], names[k])
                    if isinstance(ref2, tuple):
                        ref2 = list(ref2)
                    if not _same_exact(d.get(k), ref2):
                        out.append((f"{prop}.shape", f"node {n}: stored {k}={d.get(k)}, the node's mask alone gives {ref2}"))
        if len(out) > 3:
            break
    return out


# ------------------------------------------------------------------ C09
def iou_values(tr, prop="C09", oracle="incremental", active=None) -> list:
    seg = tr.segmentation
    if seg is None or "iou" not in (tr.annotators.features if active is None else active):
        return []
    tk = _tkey(tr)
    out = []
    for u, v, d in tr.graph.edges(data=True):
        a = seg[tr.graph.nodes[u][tk]] == u
        b = seg[tr.graph.nodes[v][tk]] == v
        ref = models.ref_iou(a, b)
        got = d.get("iou")
        if got is None or not _close(got, ref, 1e-12):
            skip = tr.graph.nodes[v][tk] - tr.graph.nodes[u][tk] > 1
            out.append((f"{prop}.{oracle}", f"edge {(u, v)}{' (skip edge)' if skip else ''}: stored iou {got}, masks give {ref}"))
            if len(out) > 3:
                break
    return out
