"""The simulator: one live SolutionTracks driven by a scheduled client.

The client (a UI such as motile-tracker) is played by this module: it issues operations,
chooses their order, sometimes issues invalid ones, plays the caller half of the paint
protocol, subscribes to the refresh signal, saves/exports and crash-restarts.
All choices come from the operation list; nothing here draws random numbers.
"""
from __future__ import annotations

import signal
import traceback
import warnings

import networkx as nx
import numpy as np

from . import models, observe, oracles, world as worldmod

STEP_ALARM_S = 30  # generous: a loaded machine must never turn a slow step into an alarm


class StepTimeout(BaseException):
    pass


class RunAbort(Exception):
    """Ends a run without a verdict (guard tripped / dependency cannot compute)."""

    def __init__(self, reason, detail=""):
        super().__init__(f"{reason}: {detail}")
        self.reason = reason
        self.detail = detail


class Violation(dict):
    pass


REFUSAL_TYPES = ("InvalidActionError", "ValueError", "KeyError", "NetworkXError")

NODE_CLASSES = (
    "any", "root", "leaf", "div_parent", "div_child", "skip_src", "skip_dst", "isolated",
    "has_parent", "one_child", "orphan_root",
)


def _from_dependency(e: BaseException) -> bool:
    """True if the innermost frame of the exception is inside skimage / scipy / numpy or
    the regionprops extension (degenerate mask the dependency cannot measure)."""
    seen = 0
    while e is not None and seen < 6:
        tb = e.__traceback__
        last = None
        while tb is not None:
            last = tb.tb_frame.f_code.co_filename
            tb = tb.tb_next
        if last is not None and any(x in last for x in ("/skimage/", "/scipy/", "/numpy/", "_regionprops_extended")):
            return True
        # a rollback that fails after a dependency error keeps the latter as its context
        e = e.__cause__ or e.__context__
        seen += 1
    return False


def _alarm_handler(signum, frame):
    raise StepTimeout()


class Sim:
    def __init__(self, world: dict, props: set, opts: dict | None = None):
        from funtracks.exceptions import InvalidActionError  # noqa: F401

        self.world = world
        self.props = set(props)
        self.opts = opts or {}
        self.T = world["shape"][0]
        self.fshape = tuple(world["shape"][1:])
        self.violations: list[Violation] = []
        self.log: list = []
        self.stats: dict = {}
        self.probes: dict = {}
        self.cases: set = set()
        self.shared_attrs: dict = {}
        self.state_hashes: set = set()
        self._pending_abort = None
        self.hist_chain = None
        self.known_hits: dict = {}
        self.word: list = []
        self.step_no = -1
        self.emissions: list = []  # (step, payload, structure_ok)
        self.n_subs = world.get("subscribers", 1)
        self.sibling = None
        self.sibling2 = None
        self.construction_error = None
        try:
            if world.get("sibling"):
                self.sibling = self._build_sibling()
                self.sibling2 = self._empty_solution()
            self.tracks = worldmod.build(world)
        except Exception as e:  # noqa: BLE001
            if _from_dependency(e):
                raise RunAbort("dependency_abort", f"construction: {type(e).__name__}: {str(e)[:100]}") from e
            # building a solution from a valid world through the public constructor and
            # user actions must not raise; reported by the checks that have a construction
            # clause, a silent abort for the others
            self.construction_error = f"{type(e).__name__}: {str(e)[:200]}"
            own = self.opts.get("own")
            if own in ("C03", "C04", "C05", "C06", "C07", "C08", "C09", "C10"):
                self.violate(own, f"{own}.construction", f"constructing solution objects from a valid world raised {self.construction_error}", {"op": "init"}, ["init"], type(e).__name__)
            ab = RunAbort("construction_failed", self.construction_error)
            ab.violations = [dict(v) for v in self.violations]
            ab.known_hits = dict(self.known_hits)
            raise ab from e
        self._connect()
        self.with_seg = self.tracks.segmentation is not None
        self.epochs: dict = {}
        # id keys renumbered by a bulk re-enable: the undo history still replays the old
        # numbers, so these keys are never compared against timeline snapshots again
        self.tainted: set = set()
        # the harness observes through the public getters after every step; what those reads
        # do to the object is itself a C16 matter, judged once on the untouched object
        raw0 = observe.deep(self.tracks) if "C16" in props else None
        self.last_canon = observe.canon(self.tracks)
        self._getter_diff = observe.deep_diff(raw0, observe.deep(self.tracks), ignore=("counters",)) if raw0 is not None else None
        self.timeline = models.Timeline(self._snap(self.last_canon))
        self.labels: list = []  # transition labels parallel to timeline (named sets)
        self.expected_emissions = 0
        # the client's view of what is enabled: what the object reports after construction,
        # plus track and lineage ids, which a solution manages from the start by contract
        # the names of the two id attributes as the client knows them from construction: they
        # never change during a session (switching a feature off removes it from the registry,
        # not from the registry's special keys), so the oracles do not ask the object again
        self.tk = self.tracks.features.tracklet_key
        self.lk = self.tracks.features.lineage_key
        self.model_active = set(self.tracks.annotators.features) | {self.tk, self.lk}
        self.model_static = set(self.tracks.features) - set(self.tracks.annotators.all_features)
        self.issued_node_ids: list = []
        self.saves: dict = {}  # fmt -> acknowledged save record
        self.exports: dict = {}  # fmt -> directory of the last acknowledged export
        self.export_digest: dict = {}
        self.io = None  # persist.IO, attached by runner when needed
        self.restarts = 0
        self.recent: list = []
        self.seg_ref = None  # copy of the label image taken at the first export after a change
        self.npt = None
        if world.get("np_client"):
            self.npt = np.dtype(world["dtype"]).type if world["seg"] else np.int64
            self.count("cfg_numpy_scalar_client")
        self.aborted = None
        self.count("cfg_" + ("seg" if self.with_seg else "noseg"))
        self.count("cfg_%dd" % (world["ndim"] - 1))
        self.count("cfg_scale_" + ("none" if world["scale"] is None else ("ones" if len(set(world["scale"])) == 1 else "aniso")))
        self.count("cfg_pos_" + world["pos_mode"])
        self.count("cfg_ids_" + world["ids"])
        if world.get("big"):
            self.count("cfg_big_sparse_ids")
        if world.get("id_keys") == "renamed":
            self.count("cfg_id_keys_renamed")
        if world.get("pos_array"):
            self.count("cfg_pos_as_ndarray")
        if world.get("seg_layout", "C") != "C":
            self.count("cfg_seg_not_contiguous")
        if "0" in world["nodes"]:
            self.count("cfg_node_id_zero")
        if not world["nodes"]:
            self.count("cfg_empty_start")

    # ---------------------------------------------------------------- sibling instance
    def _empty_solution(self):
        from funtracks.data_model import SolutionTracks

        w = self.world
        seg = np.zeros(tuple(w["shape"]), dtype=np.dtype(w["dtype"])) if w["seg"] else None
        return SolutionTracks(nx.DiGraph(), segmentation=seg, ndim=w["ndim"], scale=None if w["scale"] is None else list(w["scale"]))

    def _build_sibling(self):
        """A second SolutionTracks in the same process, started from an empty graph and
        edited through the public API before the session's own object is built."""
        from funtracks.data_model import SolutionTracks
        from funtracks.user_actions import UserAddEdge, UserAddNode

        w = self.world
        seg = np.zeros(tuple(w["shape"]), dtype=np.dtype(w["dtype"])) if w["seg"] else None
        sib = SolutionTracks(nx.DiGraph(), segmentation=seg, ndim=w["ndim"], scale=None if w["scale"] is None else list(w["scale"]))
        for i, t in enumerate(range(min(3, w["shape"][0]))):
            attrs = {sib.features.time_key: t, sib.features.tracklet_key: 1}
            px = None
            if seg is not None:
                px = (np.array([t]), *[np.array([0]) for _ in w["shape"][1:]])
            else:
                attrs[sib.features.position_key] = [0.0] * (w["ndim"] - 1)
            UserAddNode(sib, 1 + i, attrs, pixels=px)
        if min(3, w["shape"][0]) >= 2:
            UserAddNode(sib, 9, {sib.features.time_key: 1, sib.features.tracklet_key: 2, **({} if seg is not None else {sib.features.position_key: [1.0] * (w["ndim"] - 1)})},
                        pixels=None if seg is None else (np.array([1]), *[np.array([1]) for _ in w["shape"][1:]]))
            UserAddEdge(sib, (1, 9))
        self.sibling_canon = observe.canon(sib)
        self.sibling_deep = observe.deep(sib)
        return sib

    def check_sibling(self, when):
        """The sibling was not touched by this session: it must be exactly as it was, and
        its own lookups must still agree with its own graph."""
        sib = self.sibling
        if sib is None or self.violations:
            return
        res = []
        if self.active("C06"):
            res += oracles.lookups(sib)
        if self.active("C04"):
            res += oracles.track_partition(sib)
        if self.active("C05"):
            res += oracles.lineage_partition(sib)
        if self.active("C07"):
            res += oracles.seg_correspondence(sib)
        if self.sibling2 is not None and when == "init":
            # a third object, created empty after the sibling was edited: it must be empty
            s2 = self.sibling2
            ta = s2.track_annotator
            left = {k: v for k, v in ta.tracklet_id_to_nodes.items() if v} or {k: v for k, v in ta.lineage_id_to_nodes.items() if v}
            if left or ta.max_tracklet_id or ta.max_lineage_id or s2.graph.number_of_nodes():
                own = self.opts.get("own")
                if own in ("C04", "C05", "C06"):
                    self.violate(own, {"C04": "C04.partition", "C05": "C05.partition", "C06": "C06.lookup"}[own], f"a freshly constructed empty solution already lists {left} (max ids {ta.max_tracklet_id}, {ta.max_lineage_id}): state is shared between solution objects", {"op": when}, ["sibling"])
                    return
        for o, m in res:
            self.violate(o.split(".")[0], o, f"second solution object in the same process ({when}): {m}", {"op": when}, ["sibling"])
            return
        own = self.opts.get("own")
        if own in ("C04", "C05", "C06", "C07", "C16", "C11"):
            dd = observe.deep_diff(self.sibling_deep, observe.deep(sib))
            if dd:
                oracle = {"C04": "C04.frame", "C05": "C05.frame", "C06": "C06.lookup", "C07": "C07.label_node", "C16": "C16.query", "C11": "C11.state"}[own]
                self.violate(own, oracle, f"editing one solution changed another solution object in the same process ({when}): {dd[:2]}", {"op": when}, ["sibling"])
                return
        self.count("sibling_checked")

    # ---------------------------------------------------------------- plumbing
    def count(self, name, n=1):
        self.probes[name] = self.probes.get(name, 0) + n

    def stat(self, name, n=1):
        self.stats[name] = self.stats.get(name, 0) + n

    def case(self, *key):
        """Record one distinct non-trivial case (by the property's stated rule)."""
        import hashlib

        self.cases.add(hashlib.blake2b(repr(key).encode(), digest_size=8).hexdigest())

    def _connect(self):
        self._subs = []
        for i in range(self.n_subs):
            def cb(*args, _i=i):
                ok = not oracles.structure(self.tracks)
                self.emissions.append((self.step_no, _i, tuple(args), ok))
            self._subs.append(cb)
            self.tracks.refresh.connect(cb)

    def _snap(self, canon):
        return (canon, dict(self.epochs))

    def _keys_ok(self, snap_epochs):
        cur = self.epochs
        tainted = self.tainted
        return lambda k: k not in tainted and snap_epochs.get(k, 0) == cur.get(k, 0)

    def active(self, prop):
        return prop in self.props

    def violate(self, prop, oracle, msg, op=None, tags=(), exc=None):
        v = Violation(
            property=prop, oracle=oracle, msg=str(msg)[:600], step=self.step_no,
            op=(op or {}).get("op") if isinstance(op, dict) else op, tags=sorted(tags), exc=exc,
        )
        from . import findings

        k = findings.match_known(v)
        if k is not None:
            # a listed finding: counted, reported as KNOWN-FINDING, never ends the run
            self.known_hits[k["id"]] = self.known_hits.get(k["id"], 0) + 1
            if k.get("ends_run"):
                # the listed defect leaves the tracks inconsistent: nothing after it could
                # be attributed; the run ends here (counted), the finding is reported
                raise RunAbort("known_finding_" + k["id"], v["msg"][:120])
            return None
        self.violations.append(v)
        return v

    def _defer(self, reason, detail=""):
        """Guard that must not pre-empt the own oracles of this step: the run is ended
        after they have been evaluated on the state the library produced."""
        self._pending_abort = (reason, detail)

    def guard(self, reason, detail=""):
        """A condition that makes the rest of the run meaningless for this check but is
        another property's business: end the run silently (counted)."""
        raise RunAbort(reason, detail)

    # ---------------------------------------------------------------- selectors
    def node_classes(self):
        g = self.tracks.graph
        tk = self.tracks.features.time_key
        cl = {c: [] for c in NODE_CLASSES}
        for n in sorted(g.nodes):
            i, o = g.in_degree(n), g.out_degree(n)
            cl["any"].append(n)
            if i == 0 and o > 0:
                cl["root"].append(n)
            if o == 0 and i > 0:
                cl["leaf"].append(n)
            if o >= 2:
                cl["div_parent"].append(n)
            if o == 1:
                cl["one_child"].append(n)
            if i == 0 and o == 0:
                cl["isolated"].append(n)
            if i > 0:
                cl["has_parent"].append(n)
                p = next(iter(g.predecessors(n)))
                if g.out_degree(p) >= 2:
                    cl["div_child"].append(n)
            if i == 0:
                cl["orphan_root"].append(n)
        for u, v in sorted(g.edges):
            if g.nodes[v][tk] - g.nodes[u][tk] > 1:
                cl["skip_src"].append(u)
                cl["skip_dst"].append(v)
        cl["recent"] = [n for n in self.recent if n in g]
        return cl

    def pick_node(self, sel, classes=None):
        cls, k = sel
        g = self.tracks.graph
        if cls == "unknown":
            labels = 0
            if self.with_seg:
                labels = int(self.tracks.segmentation.max())
            return max(list(g.nodes) + [labels, 0]) + 1 + (k % 5)
        if cls == "id":
            return k
        classes = classes or self.node_classes()
        c = classes.get(cls) or classes["any"]
        if not c:
            return None
        if cls == "recent" and classes.get(cls):
            self.count("sel_recent_node")
        return c[k % len(c)]

    def pick_edge(self, sel):
        cls, k = sel
        g = self.tracks.graph
        tk = self.tracks.features.time_key
        es = sorted(g.edges)
        if not es:
            return None
        if cls == "division":
            c = [e for e in es if g.out_degree(e[0]) >= 2]
        elif cls == "skip":
            c = [e for e in es if g.nodes[e[1]][tk] - g.nodes[e[0]][tk] > 1]
        elif cls == "normal":
            c = [e for e in es if g.out_degree(e[0]) == 1]
        elif cls == "recent":
            r = set(self.recent)
            c = [e for e in es if e[0] in r or e[1] in r]
            if c:
                self.count("sel_recent_edge")
        else:
            c = es
        c = c or es
        return c[k % len(c)]

    def track_ids_on_graph(self):
        key = self.tracks.features.tracklet_key
        return sorted({d.get(key) for _, d in self.tracks.graph.nodes(data=True)} - {None})

    def pick_track(self, spec):
        mode, arg = spec
        if mode == "existing":
            ids = self.track_ids_on_graph()
            if ids:
                return ids[arg % len(ids)]
            mode = "fresh"
        if mode == "explicit":
            return int(arg)
        return self.tracks.get_next_track_id()

    def time_of(self, n):
        return self.tracks.graph.nodes[n][self.tracks.features.time_key]

    def structural_ok(self):
        """Structural edits (and undo/redo) are only scheduled while track ids are managed
        (by the client's account: it has not switched them off)."""
        return self.tk in self.model_active

    def N(self, x):
        """The argument as the simulated client passes it: a numpy scalar of the label
        dtype (int64 without segmentation) if this run's client works with arrays."""
        if self.npt is None or isinstance(x, bool) or not isinstance(x, int):
            return x
        info = np.iinfo(self.npt)
        return self.npt(x) if info.min <= x <= info.max else x

    def NT(self, x):
        """Times, track and lineage ids of such a client: int64 (coordinate / table columns)."""
        if self.npt is None or isinstance(x, bool) or not isinstance(x, int):
            return x
        return np.int64(x)

    def _note_recent(self, a, b):
        """Nodes the operation touched (created, changed, or an endpoint of a created /
        removed / changed edge): the target set of the "recent" selector class."""
        if a is None or a is b:
            return
        na, nb = a["nodes"], b["nodes"]
        ch = {n for n in nb if na.get(n) != nb[n]}
        ea, eb = a["edges"], b["edges"]
        for e in set(ea) | set(eb):
            if ea.get(e) != eb.get(e):
                ch.update(e)
        ch = sorted(n for n in ch if n in nb)
        if ch:
            self.recent = ch[:8]

    # ---------------------------------------------------------------- step
    def step(self, op: dict):
        self.step_no += 1
        if op["op"] == "all_pairs":
            # systematic layer of C03/C11 (thorough): offer every ordered node pair of the
            # current state as an edge, force off and on; an accepted edge is undone so the
            # sweep continues from the same state
            self.step_no -= 1
            out = {"cls": "skipped"}
            nodes = sorted(self.tracks.graph.nodes)[: op.get("cap", 10)]
            for force in (False, True):
                for u in nodes:
                    for v in nodes:
                        if not self.structural_ok():
                            return out
                        out = self.step({"op": "add_edge", "u": ["id", u], "v": ["id", v], "mode": "asis", "force": force, "reinvert": False})
                        if self.violations:
                            return out
                        if out.get("cls") == "accepted":
                            self.step({"op": "undo"})
                            if self.violations:
                                return out
            self.count("c03_all_pairs_sweeps")
            return out
        if op["op"] == "first_accepted":
            # systematic layer: execute candidate edits until one is accepted
            self.step_no -= 1
            out = {"cls": "skipped"}
            for cand in op["tries"]:
                out = self.step(cand)
                if out.get("cls") == "accepted" or self.violations:
                    break
            return out
        tr = self.tracks
        kind = op["op"]
        if op.get("motif"):
            self.count("motif_started")
        if kind not in ("export", "save", "query"):
            self.seg_ref = None
        handler = getattr(self, "op_" + kind)
        need_deep = self.active("C11") or (self.active("C16") and kind in ("query", "export", "save")) or (
            self.active("C10") and kind in ("enable", "disable", "update_attrs")
        )
        pre = {
            "canon": self.last_canon,
            "deep": observe.deep(tr, len(self.emissions)) if need_deep else None,
            "nem": len(self.emissions),
        }
        if self.props & {"C03", "C04", "C05", "C06"}:
            g = nx.DiGraph()
            g.add_nodes_from(tr.graph.nodes)
            g.add_edges_from(tr.graph.edges)
            pre["g"] = g
            pre["tid"] = {n: d.get(self.tk) for n, d in tr.graph.nodes(data=True)}
            pre["lid"] = {n: d.get(self.lk) for n, d in tr.graph.nodes(data=True)}
            pre["time"] = {n: d.get(tr.features.time_key) for n, d in tr.graph.nodes(data=True)}
        if self.active("C10"):
            pre["frozen"] = self._capture_frozen()
        self.pre = pre
        out = {"cls": "skipped"}
        old = signal.signal(signal.SIGALRM, _alarm_handler)
        io_op = op["op"] in ("save", "export", "reimport", "restart")
        signal.alarm(STEP_ALARM_S * (60 if op.get("sweep") else (4 if io_op else 1)))
        try:
            out = handler(op) or {"cls": "skipped"}
        except StepTimeout:
            signal.alarm(0)
            self.violate(self.opts.get("own", "hang"), "hang", f"step did not return within its time limit ({STEP_ALARM_S}s base): {op}", op)
            raise RunAbort("hang")
        finally:
            signal.alarm(0)
            signal.signal(signal.SIGALRM, old)
        out.setdefault("cls", "returned")
        self.stat(f"op.{kind}.{out['cls']}")
        if out["cls"] == "skipped":
            self.log.append((self.step_no, kind, "skipped"))
            return out
        tr = self.tracks  # may have been replaced by a restart
        post = observe.canon(tr)
        self._note_recent(pre["canon"], post)
        self.last_canon = post
        if self.violations:
            # op-level oracle already failed; state oracles would only cascade
            self._log(op, out, post, pre)
            return out
        self._post_checks(op, out, pre, post)
        self._log(op, out, post, pre)
        if self.io is not None and self.step_no % 25 == 24:
            from .seams import quiesce_io

            quiesce_io()
        return out

    def _log(self, op, out, post, pre):
        self.state_hashes.add(observe.state_hash(post))
        em = [(e[1], repr(e[2]), e[3]) for e in self.emissions[pre["nem"]:]]
        self.log.append((
            self.step_no, op["op"], repr(out.get("resolved")), out["cls"], out.get("exc"),
            observe.state_hash(post), em, out.get("io"),
        ))

    # ---------------------------------------------------------------- generic post checks
    def _post_checks(self, op, out, pre, post):
        tr = self.tracks
        kind = op["op"]
        cls = out["cls"]
        is_edit = kind in ("add_node", "delete_node", "add_edge", "delete_edge", "swap", "update_attrs", "paint")
        new_em = self.emissions[pre["nem"]:]
        per_sub = {}
        for e in new_em:
            per_sub.setdefault(e[1], []).append(e)
        tags = out.get("tags", ())

        # ---- refused: C11 atomicity (own oracle for C11, guard for everyone else)
        if cls in ("refused", "crash") and is_edit:
            changed = post != pre["canon"]
            dd = None
            if self.active("C11"):
                dd = observe.deep_diff(pre["deep"], observe.deep(tr, len(self.emissions)))
                if dd:
                    oracle = "C11.emission" if [d for d in dd if d[0] == "emissions"] and len(dd) == 1 else (
                        "C11.history" if all(d[0] in ("undo", "redo") for d in dd) else "C11.state")
                    self.violate("C11", oracle, f"{kind} raised {out.get('exc')} but changed {dd[:2]}", op, tags, out.get("exc"))
                    return
                self.stat("C11.eval")
                self.count(f"c11_{kind}_{out.get('reason', out.get('exc'))}")
                self.case(kind, out.get("exc"), out.get("reason"), tuple(tags), observe.shape_hash(tr))
            if changed:
                if self.active("C02"):
                    # a refused edit is no step on the timeline: the state has to be the
                    # current timeline state still ("the tracks state always equals ...")
                    d = observe.canon_diff(pre["canon"], post)
                    self.violate("C02", "C02.timeline.refused", f"{kind} raised {out.get('exc')} (no step on the timeline) but the state changed: {d[:3]}", op, tags, out.get("exc"))
                    return
                if self.active("C07") and self.with_seg:
                    # "after any sequence of user actions": also after one that was refused
                    # and whose painted pixels the caller has put back
                    for o, m in oracles.seg_correspondence(tr):
                        self.violate("C07", o, f"after refused {kind}: {m}", op, tags)
                        return
                if self.opts.get("own") in ("C03", "C04", "C05", "C06", "C08", "C09"):
                    # the state properties speak about every state reachable through user
                    # actions, refused attempts included: the session goes on, and the own
                    # oracle looks at what the next accepted action leaves behind
                    self.count("refused_edit_changed_state_session_continues")
                    self.last_canon = post
                    return
                self.guard("refused_edit_changed_state", f"{kind} {out.get('exc')}")
            if self.active("C20") and new_em:
                self.violate("C20", "C20.count", f"refused {kind} emitted {len(new_em)} refresh signal(s)", op, tags)
                return
            if cls == "crash":
                self.stat("crash." + str(out.get("exc")))
            return

        # ---- timeline (C02) bookkeeping + oracle
        if kind in ("undo", "redo"):
            self._check_history_step(op, out, pre, post)
            self.hist_chain = "edit-undo" if (kind == "undo" and self.hist_chain == "edit" and out.get("val") is True) else None
            if self.violations:
                return
        elif is_edit and cls == "accepted":
            self.hist_chain = "edit"
            if self.timeline.can_redo():
                self.count("h_edit_after_undo")
            if self.restarts:
                self.count("io_edit_after_restart")
            self.timeline.edit(self._snap(post))
            self.expected_emissions += 1
        elif kind in ("enable", "disable", "restart"):
            self.hist_chain = None

        # ---- C20
        if self.active("C20") and self.n_subs:
            want = 1 if ((is_edit and cls == "accepted") or (kind in ("undo", "redo") and out.get("val") is True)) else 0
            for i in range(self.n_subs):
                got = per_sub.get(i, [])
                if len(got) != want:
                    self.violate("C20", "C20.count", f"{kind} ({cls}) delivered {len(got)} refresh emission(s) to subscriber {i}, expected {want}", op, tags)
                    return
                if want and out.get("new_node") is not None:
                    if got[0][2] != (out["new_node"],):
                        self.violate("C20", "C20.payload", f"{kind} created node {out['new_node']} but the emission carried {got[0][2]}", op, tags)
                        return
                if want and not got[0][3]:
                    self.violate("C20", "C20.order", f"emission of {kind} arrived while the graph was structurally incomplete", op, tags)
                    return
            self.stat("C20.eval")

        changed_state = is_edit and cls == "accepted" or kind in ("undo", "redo", "restart", "enable", "disable")
        # ---- state invariants
        if self.active("C03") and (changed_state or kind == "init"):
            for o, m in oracles.structure(tr):
                self.violate("C03", o, m, op, tags)
                return
            self.stat("C03.eval")
            if is_edit and cls == "accepted":
                self._check_forced_removal(op, out, pre)
                if self.violations:
                    return
        ids_on = self.structural_ok()
        if self.active("C04") and changed_state and ids_on:
            for o, m in oracles.track_partition(tr, self.tk):
                self.violate("C04", o, m, op, tags)
                return
            self.stat("C04.eval")
            if is_edit and cls == "accepted" and out.get("named") is not None:
                named = self._named(out, pre)
                for o, m in oracles.frame_clause(pre["g"], pre["tid"], tr, self.tk, named, "C04"):
                    self.violate("C04", o, m, op, tags)
                    return
        if self.active("C05") and changed_state and ids_on and self.lk is not None and self.lk in self.model_active:
            for o, m in oracles.lineage_partition(tr, self.lk):
                self.violate("C05", o, m, op, tags)
                return
            self.stat("C05.eval")
            if self._structure_changed(pre):
                self.count("c05_structure_changed")
            if is_edit and cls == "accepted" and out.get("named") is not None:
                named = self._named(out, pre)
                for o, m in oracles.frame_clause(pre["g"], pre["lid"], tr, self.lk, named, "C05"):
                    self.violate("C05", o, m, op, tags)
                    return
        if self.active("C06") and ids_on:
            for o, m in oracles.lookups(tr, keys=(self.tk, self.lk if self.lk in self.model_active else None)):
                self.violate("C06", o, m, op, tags)
                return
            self.stat("C06.eval")
            if is_edit and cls == "accepted" and "tid" in pre:
                # an id that did not exist before this edit was issued by it; if it now sits
                # on two different segments (components), it was handed out while in use
                for key, old_ids, blocks, what in (
                    (self.tk, set(pre["tid"].values()), models.segments(tr.graph), "track"),
                    (self.lk, set(pre["lid"].values()), models.components(tr.graph), "lineage"),
                ):
                    if key is None or key not in self.model_active:
                        continue
                    fresh = {}
                    for i, b in enumerate(blocks):
                        for n in b:
                            v = tr.graph.nodes[n].get(key)
                            if v is not None and v not in old_ids:
                                fresh.setdefault(v, set()).add(i)
                    for v, bl in fresh.items():
                        if len(bl) > 1:
                            self.violate("C06", "C06.next_id", f"{what} id {v} was newly issued by this {kind} and given to {len(bl)} different {'segments' if what == 'track' else 'components'}: it was issued again while already in use", op, tags)
                            return
            qe = self.opts.get("query_every", 5)
            if self.step_no % qe == 0:
                ids = self.track_ids_on_graph()
                extra = [max(ids + [0]) + 1, max(ids + [0]) + 7]
                for o, m in oracles.queries(tr, self.T, extra):
                    self.violate("C06", o, m, op, tags)
                    return
                self.stat("C06.query_eval")
        if self.with_seg and tr.segmentation is not None:
            if self.active("C07") and changed_state:
                for o, m in oracles.seg_correspondence(tr):
                    self.violate("C07", o, m, op, tags)
                    return
                self.stat("C07.eval")
            if self.active("C08") and changed_state:
                for o, m in oracles.node_measurements(tr, active=self.model_active) or self._shape_check():
                    self.violate("C08", o, m, op, tags)
                    return
                self.stat("C08.eval")
            if self.active("C09") and changed_state:
                orc = "bulk" if kind == "enable" and "iou" in (out.get("resolved") or {}).get("keys", ()) else "incremental"
                for o, m in oracles.iou_values(tr, "C09", orc, active=self.model_active):
                    self.violate("C09", o, m, op, tags)
                    return
                self.stat("C09.eval")
        if self.active("C10"):
            self._check_c10(op, out, pre)
            if self.with_seg and tr.segmentation is not None and changed_state and kind not in ("enable", "disable") and not self.violations:
                # "once enabled ... equal the reference values for the current state": not
                # only at the moment of enabling but after every later edit, undo and redo
                res = oracles.node_measurements(tr, None, "C10", active=self.model_active)
                res = res or (self._shape_check() or [])
                res = res or oracles.iou_values(tr, "C10", "values", active=self.model_active)
                for _, m in res:
                    self.violate("C10", "C10.values", f"after {kind}: a feature that is enabled no longer equals its reference: {m}", op, tags)
                    return
                self.stat("C10.values_after_step")
            if is_edit and cls == "accepted" and self.tk in self.model_active and not self.violations:
                # the id features are features too: once (re-)enabled with recomputation they
                # have to follow every later edit. Judged after accepted edits only - a
                # history step taken after a renumbering is the listed finding D17, handled
                # in _check_history_step; and only for keys the client has on
                res = oracles.track_partition(tr, self.tk) + oracles.lookups(tr, ("tracklet",), keys=(self.tk, None))
                if self.lk is not None and self.lk in self.model_active:
                    res += oracles.lineage_partition(tr, self.lk) + oracles.lookups(tr, ("lineage",), keys=(self.tk, self.lk))
                for _, m in res:
                    self.violate("C10", "C10.values", f"after {kind}: an id feature that is enabled no longer equals its reference: {m}", op, list(tags) + (["ids_were_recomputed"] if self.tainted else []))
                    return
                self.stat("C10.ids_after_edit")
        self._account(op, out, pre, post, is_edit, changed_state)
        if self._pending_abort and not self.violations:
            reason, detail = self._pending_abort
            self.guard(reason, detail)

    def _account(self, op, out, pre, post, is_edit, changed_state):
        """distinct_nontrivial bookkeeping, one rule per property (see evidence.rule)."""
        kind, cls = op["op"], out["cls"]
        tags = tuple(out.get("tags", ()))
        tr = self.tracks
        own = self.opts.get("own")
        if kind in ("undo", "redo"):
            self.word.append("U" if kind == "undo" else "R")
        elif is_edit and cls == "accepted":
            self.word.append("E")
        if own == "C03" and is_edit:
            self.case(kind, cls, tags, observe.shape_hash(tr))
        elif own in ("C04", "C05") and changed_state and "g" in pre and self._structure_changed(pre):
            self.case(observe.shape_hash(tr))
        elif own == "C06" and changed_state:
            self.case(observe.shape_hash(tr), tuple(self.track_ids_on_graph()))
        elif own == "C07" and changed_state and self.with_seg and kind in ("paint", "add_node", "delete_node", "undo", "redo"):
            self.case(kind, tags, post["seg"])
        elif own in ("C08", "C09") and changed_state and self.with_seg and tr.graph.number_of_nodes():
            self.case(observe.state_hash(post))
        elif own == "C10" and (kind in ("enable", "disable") or "protected" in tags or (pre.get("frozen") and is_edit)):
            self.case(kind, cls, tags, repr(out.get("resolved")), tuple(sorted(self.model_active)))
        elif own == "C20" and (is_edit or kind in ("undo", "redo", "primitive")):
            self.case(kind, cls, tags, out.get("val"))

    def _shape_check(self):
        try:
            return oracles.shape_features(self.tracks, active=self.model_active)
        except (NotImplementedError, ValueError) as e:
            self.guard("dependency_abort", f"from-scratch shape computation raised {type(e).__name__}: {e}")

    def _structure_changed(self, pre):
        g = self.tracks.graph
        return set(pre["g"].edges) != set(g.edges) or set(pre["g"].nodes) != set(g.nodes)

    def _named(self, out, pre):
        """Nodes the op names plus all nodes carrying a track id it names (pre or post)."""
        named = set(out["named"].get("nodes", ()))
        tids = set(out["named"].get("tracks", ()))
        if tids:
            key = self.tracks.features.tracklet_key
            for n, t in pre["tid"].items():
                if t in tids:
                    named.add(n)
            for n, d in self.tracks.graph.nodes(data=True):
                if d.get(key) in tids:
                    named.add(n)
        return named

    # ---------------------------------------------------------------- C02
    def _check_history_step(self, op, out, pre, post):
        kind = op["op"]
        tl = self.timeline
        can = tl.can_undo() if kind == "undo" else tl.can_redo()
        val = out.get("val")
        own = self.active("C02")
        if out["cls"] == "crash":
            if own:
                self.violate("C02", f"C02.timeline.{kind}", f"{kind}() raised {out.get('exc')}: {out.get('msg')}", op, exc=out.get("exc"))
                return
            self.guard("history_crash", f"{kind} raised {out.get('exc')}")
        if can:
            snap, ep = tl.undo() if kind == "undo" else tl.redo()
            self.expected_emissions += 1 if val is True else 0
            if val is not True:
                if own:
                    self.violate("C02", "C02.timeline.return", f"{kind}() returned {val!r} although the timeline has a state to step to", op)
                    return
                return self._defer("history_diverged")
            diff = observe.canon_diff(snap, post, self._keys_ok(ep))
            if diff:
                if own:
                    self.violate("C02", f"C02.timeline.{kind}", f"state after {kind}() differs from timeline state {tl.p}: {diff[:3]}", op)
                    return
                if self.active("C07") and snap.get("seg") != post.get("seg"):
                    # C07's own clause: undoing (redoing) restores the array bit for bit
                    self.violate("C07", "C07.undo_bytes", f"{kind}() did not restore the segmentation array of timeline state {tl.p} bit for bit", op)
                    return
                if self.active("C01") and self._adjacent_inverse(kind):
                    # undo() directly after the edit it inverts (or redo() directly after
                    # that undo): plain inversion of one edit, C01's own statement
                    self.violate("C01", "C01.undo" if kind == "undo" else "C01.redo", f"{kind}() right after the {'edit' if kind == 'undo' else 'undo'} did not {'restore the pre-edit' if kind == 'undo' else 'reproduce the post-edit'} state: {diff[:3]}", op)
                    return
                return self._defer("history_diverged", str(diff[:2]))
            if self.active("C01") and self._adjacent_inverse(kind):
                self.stat("C01.eval")
                self.case("history", kind, observe.shape_hash(self.tracks))
            self.count("h_" + kind + "_step")
            if kind == "undo" and tl.p < len(tl.T) - 2:
                self.count("h_undo_deep")
        else:
            self.count(f"h_{kind}_empty")
            if val is not False:
                if own:
                    self.violate("C02", "C02.timeline.return", f"{kind}() returned {val!r} with nothing to step to", op)
                    return
                if self.active("C20") and self.n_subs and len(self.emissions) > pre["nem"]:
                    # "undo/redo calls with nothing to do emit none": nothing to do by the
                    # timeline of this session, whatever the call returned
                    self.violate("C20", "C20.count", f"{kind}() with nothing to step to (by the session's timeline) delivered {len(self.emissions) - pre['nem']} refresh emission(s)", op)
                    return
                return self._defer("history_diverged")
            if post != pre["canon"]:
                if own:
                    self.violate("C02", f"C02.timeline.{kind}", f"{kind}() with nothing to step to changed the state", op)
                    return
                return self._defer("history_diverged")
        if own:
            self.stat("C02.eval")
        if self.active("C10") and self.tainted and val is True and not self.violations:
            # strict reading of C10 ("once enabled with recomputation, values equal the
            # reference for the current state"): after a bulk re-enable renumbered the ids,
            # a history step replays actions that recorded the old numbers
            tr = self.tracks
            res = []
            if self.tk in self.tainted and self.tk in self.model_active:
                res += oracles.track_partition(tr, self.tk)
            if self.lk in self.tainted and self.lk in self.model_active:
                res += oracles.lineage_partition(tr, self.lk)
            for _, m in res:
                self.violate("C10", "C10.values", f"{kind}() after the ids had been recomputed by enable_features: {m}", op, ["after_id_renumbering"])
                return

    def _adjacent_inverse(self, kind):
        """True if this undo directly follows the accepted edit it inverts, or this redo
        directly follows such an undo (tracked through self.hist_chain)."""
        return self.hist_chain == ("edit" if kind == "undo" else "edit-undo")

    def drain(self):
        """End-of-run: undo until False walks T[p-1]..T[0] in exactly p calls; then redo
        until False walks forward to the end of the timeline."""
        if not self.structural_ok():
            return
        tl = self.timeline
        tr = self.tracks
        self.step_no += 1
        for kind in ("undo", "redo"):
            budget = tl.p if kind == "undo" else len(tl.T) - 1 - tl.p
            calls = 0
            while True:
                try:
                    r = tr.undo() if kind == "undo" else tr.redo()
                except Exception as e:  # noqa: BLE001
                    if _from_dependency(e):
                        self.guard("dependency_abort", f"drain {kind}: {type(e).__name__}: {str(e)[:100]}")
                    self.violate("C02", "C02.timeline.drain", f"{kind}() raised {type(e).__name__}: {e} during drain", {"op": "drain"})
                    return
                if not r:
                    break
                calls += 1
                if calls > budget:
                    self.violate("C02", "C02.timeline.drain", f"{kind}() still returned True after {calls} calls; the timeline has only {budget} steps", {"op": "drain"})
                    return
                snap, ep = tl.undo() if kind == "undo" else tl.redo()
                self.expected_emissions += 1
                cur = observe.canon(tr)
                diff = observe.canon_diff(snap, cur, self._keys_ok(ep))
                if diff:
                    self.violate("C02", "C02.timeline.drain", f"drain {kind} #{calls}: state differs from timeline state {tl.p}: {diff[:3]}", {"op": "drain"})
                    return
            if calls != budget:
                self.violate("C02", "C02.timeline.drain", f"{kind}() returned False after {calls} calls; the timeline has {budget} steps", {"op": "drain"})
                return
        self.last_canon = observe.canon(tr)
        self.count("h_drain_full")
        self.stat("C02.drain")

    # ---------------------------------------------------------------- C03 forced removal
    def _check_forced_removal(self, op, out, pre):
        g = self.tracks.graph
        removed = set(pre["g"].edges) - set(g.edges)
        allowed = out.get("allowed_removals")
        if allowed is None:
            return
        extra = removed - set(allowed)
        if extra:
            self.violate("C03", "C03.forced_removal", f"{op['op']} removed edge(s) {sorted(extra)} that do not conflict with it (allowed: {sorted(allowed)})", op, out.get("tags", ()))
            return
        for e in out.get("must_have_edges", ()):
            if not g.has_edge(*e):
                self.violate("C03", "C03.forced_removal", f"{op['op']} was accepted but edge {e} is absent", op, out.get("tags", ()))
                return

    # ---------------------------------------------------------------- C10
    def _capture_frozen(self):
        tr = self.tracks
        inactive = [k for k, (_, on) in tr.annotators.all_features.items() if not on]
        if not inactive:
            return None
        nodes = {n: (d, {k: d.get(k) for k in inactive if k in d}) for n, d in tr.graph.nodes(data=True)}
        edges = {(u, v): (d, {k: d.get(k) for k in inactive if k in d}) for u, v, d in tr.graph.edges(data=True)}
        return (set(inactive), nodes, edges)

    def _check_c10(self, op, out, pre):
        tr = self.tracks
        kind = op["op"]
        tags = out.get("tags", ())
        # registry model
        reg = set(tr.features)
        want = self.model_static | self.model_active
        if reg != want:
            self.violate("C10", "C10.registry", f"feature registry lists {sorted(reg)}, model expects static+enabled {sorted(want)}", op, tags)
            return
        act = set(tr.annotators.features)
        if act != self.model_active:
            self.violate("C10", "C10.registry", f"annotators compute {sorted(act)}, model expects {sorted(self.model_active)}", op, tags)
            return
        # frozen values of disabled features
        fr = pre.get("frozen")
        if fr and kind not in ("enable", "disable", "restart"):
            inactive, nodes, edges = fr
            still = {k for k in inactive if k not in tr.annotators.features}
            for n, (dobj, vals) in nodes.items():
                if n in tr.graph.nodes and tr.graph.nodes[n] is dobj:
                    for k in still:
                        if k in vals and not oracles._same_exact(dobj.get(k), vals[k]):
                            self.violate("C10", "C10.frozen", f"{kind} changed disabled feature {k} of surviving node {n}: {vals[k]} -> {dobj.get(k)}", op, tags)
                            return
                        if k not in vals and k in dobj:
                            self.violate("C10", "C10.frozen", f"{kind} wrote disabled feature {k} on surviving node {n}: {dobj.get(k)}", op, tags)
                            return
            for e, (dobj, vals) in edges.items():
                if tr.graph.has_edge(*e) and tr.graph.edges[e] is dobj:
                    for k in still:
                        if k in vals and not oracles._same_exact(dobj.get(k), vals[k]):
                            self.violate("C10", "C10.frozen", f"{kind} changed disabled feature {k} of surviving edge {e}: {vals[k]} -> {dobj.get(k)}", op, tags)
                            return
                        if k not in vals and k in dobj:
                            self.violate("C10", "C10.frozen", f"{kind} wrote disabled feature {k} on surviving edge {e}", op, tags)
                            return
            if kind not in ("query",):
                self.count("f_edit_while_disabled")
        self.stat("C10.eval")

    # ================================================================ operations
    def _user_action(self, op, fn, kind, resolved, tags=(), named=None, extra=None):
        """Run a user-action constructor; classify the outcome."""
        out = {"resolved": resolved, "tags": list(tags), "named": named}
        if extra:
            out.update(extra)
        try:
            if op.get("werror"):
                # fault: this process runs with warnings escalated to errors (python -W
                # error, pytest's filterwarnings=error): every warning site inside the
                # action is a point where it can be refused, and a refused action must
                # leave nothing behind
                out["tags"].append("warnings_as_errors")
                with warnings.catch_warnings():
                    # the categories the library itself issues; numeric RuntimeWarnings of
                    # the dependencies on small masks are not what this fault is about
                    warnings.simplefilter("error", UserWarning)
                    for cat in (DeprecationWarning, FutureWarning):
                        # deprecations attributed to the library's own modules (not numpy's
                        # or skimage's internal ones)
                        warnings.filterwarnings("error", category=cat, module=r"funtracks(\.|$)")
                    action = fn()
            else:
                action = fn()
        except StepTimeout:
            raise
        except Exception as e:  # noqa: BLE001
            if isinstance(e, Warning):
                tb, inner = e.__traceback__, ""
                while tb is not None:
                    inner = tb.tb_frame.f_code.co_filename
                    tb = tb.tb_next
                if "/annotators/" in inner:
                    # the escalated warning came from an annotator in the middle of a
                    # primitive action: "an annotator raises mid-action" is outside every
                    # listed property (DESIGN §9), the run is discarded and counted
                    self.guard("annotator_warning_abort", f"{kind}: {str(e)[:100]}")
                self.count("f5_warning_refused_" + type(e).__name__)
            if _from_dependency(e):
                # a dependency (skimage/numpy) cannot compute a feature for this mask:
                # outside every listed property (DESIGN §9); the run is discarded, counted
                self.guard("dependency_abort", f"{kind}: {type(e).__name__}: {str(e)[:120]}")
            name = type(e).__name__
            out["exc"] = name
            out["msg"] = str(e)[:200]
            out["cls"] = "refused" if name in REFUSAL_TYPES else "crash"
            if out["cls"] == "crash":
                out["tb"] = traceback.format_exc()[-800:]
            self.count(f"{kind}_refused_{name}")
            return out
        out["cls"] = "accepted"
        out["action"] = action
        return out

    def _maybe_reinvert(self, op, out):
        """C01 probe: invert the accepted user action, compare with pre-edit state; invert
        the inverse, compare with the post-edit state. History is bypassed on purpose."""
        if not (op.get("reinvert") and out["cls"] == "accepted" and self.active("C01")):
            return
        tr = self.tracks
        pre = self.pre["canon"]
        post = observe.canon(tr)
        act = out["action"]
        nem = len(self.emissions)
        tags = out.get("tags", ())
        try:
            inv = act.inverse()
        except Exception as e:  # noqa: BLE001
            self.violate("C01", "C01.inverse", f"inverse() of accepted {op['op']} raised {type(e).__name__}: {e}", op, tags, type(e).__name__)
            return
        mid = observe.canon(tr)
        d = observe.canon_diff(pre, mid)
        if d:
            self.violate("C01", "C01.inverse", f"inverting {op['op']} did not restore the pre-edit state: {d[:3]}", op, tags)
            return
        try:
            inv.inverse()
        except Exception as e:  # noqa: BLE001
            self.violate("C01", "C01.inverse2", f"inverting the inverse of {op['op']} raised {type(e).__name__}: {e}", op, tags, type(e).__name__)
            return
        d = observe.canon_diff(post, observe.canon(tr))
        if d:
            self.violate("C01", "C01.inverse2", f"inverse of inverse of {op['op']} did not reproduce the post-edit state: {d[:3]}", op, tags)
            return
        if len(self.emissions) != nem and self.active("C20"):
            self.violate("C20", "C20.count", "inverting an action outside the history emitted a refresh", op, tags)
        self.stat("C01.eval")
        self.count("c01_reinvert_" + op["op"])
        self.case("reinvert", op["op"], tuple(tags), observe.shape_hash(tr))

    # ---- add_node
    def op_add_node(self, op):
        if not self.structural_ok():
            return None
        tr = self.tracks
        g = tr.graph
        t = op["t"] % self.T
        inv = op.get("invalid")
        mode, arg = op["id"]
        nodes = sorted(g.nodes)
        if inv == "exists" and nodes:
            node = nodes[arg % len(nodes)]
        else:
            if inv == "exists":
                inv = None
            if mode == "fresh":
                node = tr._get_new_node_ids(1)[0]
                if self.active("C06") and node in g.nodes:
                    self.violate("C06", "C06.node_ids", f"freshly issued node id {node} already exists", op)
                    return {"cls": "returned", "resolved": {"node": node}}
            else:
                node = int(arg)
            labels_max = int(tr.segmentation.max()) if self.with_seg else 0
            if inv == "id_overflow":
                if self.with_seg and np.iinfo(tr.segmentation.dtype).max < 2**31:
                    # invalid request: a node id the label array's dtype cannot hold
                    node = int(np.iinfo(tr.segmentation.dtype).max) + 1 + node % 1000
                else:
                    inv = None
            while node in g.nodes or (self.with_seg and node <= labels_max and (tr.segmentation == node).any()) or (node == 0 and self.with_seg):
                node += 1
        tid = self.pick_track(op["track"])
        tkey, trk = tr.features.time_key, tr.features.tracklet_key
        attrs = {}
        if inv != "no_time":
            attrs[tkey] = t
        if inv != "no_track":
            attrs[trk] = tid
        pixels = None
        if self.with_seg:
            if inv != "no_pos":
                pixels = self._bg_pixels(t, op.get("pix", {}))
                if pixels is None:
                    return None
        elif inv != "no_pos":
            pos = [float(int(f * 2 * s)) / 2 for f, s in zip(op.get("pos", [0.5] * 3), self.fshape)]
            pk = tr.features.position_key
            if isinstance(pk, list):
                for a, v in list(zip(pk, pos))[: 1 if inv == "partial_pos" else None]:
                    attrs[a] = v
            elif inv != "partial_pos":
                attrs[pk] = pos
        lk = tr.features.lineage_key
        if op.get("lineage") and lk is not None and lk in self.model_active and not inv:
            src = [n for n in nodes if g.nodes[n].get(trk) == tid] if op["lineage"] == "of_track" else nodes
            if src:
                attrs[lk] = g.nodes[src[op.get("t", 0) % len(src)]].get(lk)
                if attrs[lk] is None:
                    del attrs[lk]
                else:
                    self.count("an_lineage_supplied_" + op["lineage"])
        if op.get("bogus_attrs") and self.with_seg and pixels is not None:
            # a client may pass managed measurements along with the pixels; the stored
            # values must still be those of the mask (C08)
            attrs["area"] = 999.0
            attrs[tr.features.position_key if isinstance(tr.features.position_key, str) else "pos"] = [0.0] * len(self.fshape)
        nopix = False
        if op.get("no_pixels_with_pos") and self.with_seg and not inv and isinstance(tr.features.position_key, str):
            # legal by the signature (pixels are optional), accepted by the library with a
            # warning: known finding D16 - the node then labels no pixel
            pixels = None
            attrs[tr.features.position_key] = [0.5] * len(self.fshape)
            nopix = True
        if inv == "none_pos":
            # invalid request: the position key is there, its value is None
            if self.with_seg:
                inv = None
            else:
                pk = tr.features.position_key
                attrs[pk[0] if isinstance(pk, list) else pk] = None
        if inv == "bad_value":
            # invalid request: an attribute value that cannot be stored (a 0-d array)
            attrs["note"] = np.asarray(1.0)
        if inv == "bad_pixels":
            # invalid request: a mask that cannot be painted - an index outside the array,
            # or any mask on tracks that have no segmentation
            if self.with_seg and pixels is not None:
                pixels = (pixels[0], *[np.asarray(a) + s for a, s in zip(pixels[1:], self.fshape)])
            elif not self.with_seg:
                pixels = (np.array([t]), *[np.array([0]) for _ in self.fshape])
        force = bool(op.get("force"))
        # model: effective track, neighbours in it (scan), allowed removals
        eff_tid = tid
        same_time = [n for n in nodes if g.nodes[n].get(trk) == tid and g.nodes[n][tkey] == t]
        tags = ["forced"] if force else []
        if nopix:
            tags.append("no_pixels_with_pos")
        if same_time:
            eff_tid = None
            tags.append("trackid_clash_same_time")
        allowed = set()
        named_tracks = {tid}
        pred = succ = None
        if eff_tid is not None:
            rp, rs = models.scan_neighbors(g, trk, tkey, tid, t)
            pred = min(rp) if rp else None
            succ = min(rs) if rs else None
            if pred is not None and succ is not None:
                allowed.add((pred, succ))
                tags.append("into_skip_edge" if g.has_edge(pred, succ) else "between_unlinked")
            if force:
                for x in (pred, succ):
                    if x is not None:
                        allowed |= set(g.in_edges(x)) | set(g.out_edges(x))
            if pred is not None and g.out_degree(pred) >= 2:
                tags.append("upstream_division")
            elif succ is not None and g.in_degree(succ) and g.out_degree(next(iter(g.predecessors(succ)))) >= 2:
                tags.append("downstream_division")
            if pred is None and succ is None:
                tags.append("new_track")
            elif succ is None:
                tags.append("append")
            elif pred is None:
                tags.append("prepend")
        if inv == "partial_pos" and (self.with_seg or not isinstance(tr.features.position_key, list)):
            inv = "no_pos"
        if inv:
            tags.append("invalid_" + inv)
        resolved = {"node": node, "t": t, "track": tid, "force": force, "npix": None if pixels is None else len(pixels[0])}
        out = self._user_action(
            op, lambda: self._call_add_node(node, attrs, pixels, force, reuse=bool(op.get("reuse_dict")) and not inv), "an", resolved, tags,
            named={"nodes": {node}, "tracks": named_tracks},
            extra={"allowed_removals": allowed, "reason": inv or ("division" if "upstream_division" in tags or "downstream_division" in tags else None)},
        )
        if op.get("scribble") and pixels is not None and not inv:
            for a in pixels:
                if isinstance(a, np.ndarray) and a.flags.writeable:
                    a[...] = 0
            self.count("client_reuses_pixel_arrays")
        if out["cls"] == "accepted":
            out["new_node"] = node
            for tg in tags:
                self.count("an_" + tg)
        self._maybe_reinvert(op, out)
        return out

    def _call_add_node(self, node, attrs, pixels, force, reuse=False):
        from funtracks.user_actions import UserAddNode

        if reuse:
            # a client that keeps one attributes dict and overwrites the fields it knows
            # about before every call (the dict object itself is handed to the library)
            self.shared_attrs.update({k: self.NT(v) for k, v in attrs.items()})
            return UserAddNode(self.tracks, self.N(node), self.shared_attrs, pixels=pixels, force=force)
        return UserAddNode(self.tracks, self.N(node), {k: self.NT(v) for k, v in attrs.items()}, pixels=pixels, force=force)

    def _bg_pixels(self, t, spec):
        seg = self.tracks.segmentation
        fr = seg[t]
        free = np.argwhere(fr == 0)
        if len(free) == 0:
            return None
        o = spec.get("o", [0.5] * 3)
        ext = spec.get("ext", [1] * 3)
        pat = spec.get("pat", "box")
        lo = [min(s - 1, int(f * s)) for f, s in zip(o, fr.shape)]
        if pat == "single":
            ext = [1] * fr.ndim
        hi = [min(s, l + max(1, e)) for l, e, s in zip(lo, ext, fr.shape)]
        mask = np.zeros(fr.shape, bool)
        mask[tuple(slice(l, h) for l, h in zip(lo, hi))] = True
        if pat == "scatter":
            idx = np.argwhere(mask)
            mask[:] = False
            for i in idx[::2]:
                mask[tuple(i)] = True
        mask &= fr == 0
        if not mask.any():
            c = free[(lo[0] * 7 + lo[-1]) % len(free)]
            mask[tuple(c)] = True
        idx = np.nonzero(mask)
        return (np.full(len(idx[0]), t), *idx)

    # ---- delete_node
    def op_delete_node(self, op):
        if not self.structural_ok():
            return None
        from funtracks.user_actions import UserDeleteNode

        tr = self.tracks
        g = tr.graph
        sel = op["n"] if op.get("invalid") != "unknown" else ["unknown", op["n"][1]]
        n = self.pick_node(sel)
        if n is None:
            return None
        tags = []
        allowed = set()
        named = {n}
        if n in g.nodes:
            i, o = g.in_degree(n), g.out_degree(n)
            allowed = set(g.in_edges(n)) | set(g.out_edges(n))
            if i == 0 and o == 0:
                tags.append("isolated")
            elif o == 0:
                tags.append("leaf")
            elif i == 0:
                tags.append("root_with_child")
            else:
                tags.append("middle")
            if o >= 2:
                tags.append("dividing")
            if i and g.out_degree(next(iter(g.predecessors(n)))) >= 2:
                tags.append("first_after_division")
        else:
            tags.append("invalid_unknown")
        pixels_arg = None
        if op.get("invalid") == "bad_pixels" and n in g.nodes:
            # invalid request: the optional pixels argument names a mask that cannot be
            # written (outside the array, or any mask on tracks without segmentation)
            t_n = self.time_of(n)
            pixels_arg = (np.array([t_n]), *[np.array([s]) for s in self.fshape])
            tags.append("invalid_bad_pixels")
        out = self._user_action(
            op, lambda: UserDeleteNode(tr, self.N(n), pixels=pixels_arg), "dn", {"node": n}, tags,
            named={"nodes": named, "tracks": set()}, extra={"allowed_removals": allowed, "reason": "unknown" if n not in g.nodes else ("bad_pixels" if pixels_arg is not None else None)},
        )
        if out["cls"] == "accepted":
            for tg in tags:
                self.count("dn_" + tg)
        self._maybe_reinvert(op, out)
        return out

    # ---- add_edge
    def op_add_edge(self, op):
        if not self.structural_ok():
            return None
        from funtracks.user_actions import UserAddEdge

        tr = self.tracks
        g = tr.graph
        cl = self.node_classes()
        inv = op.get("invalid")
        u = self.pick_node(op["u"], cl)
        v = self.pick_node(op["v"], cl)
        if u is None or v is None:
            return None
        mode = op.get("mode", "fwd")
        if mode == "self":
            v = u
        elif mode == "same_frame":
            same = [n for n in cl["any"] if n != u and self.time_of(n) == self.time_of(u)]
            if same:
                v = same[op["v"][1] % len(same)]
        elif mode == "fwd" and self.time_of(u) > self.time_of(v):
            u, v = v, u
        elif mode == "back" and self.time_of(u) < self.time_of(v):
            u, v = v, u
        if inv == "unknown_u":
            u = self.pick_node(["unknown", op["u"][1]])
        elif inv == "unknown_v":
            v = self.pick_node(["unknown", op["v"][1]])
        force = bool(op.get("force"))
        tags = ["forced"] if force else []
        must_refuse = None
        allowed = set()
        if u in g.nodes and v in g.nodes:
            tu, tv = self.time_of(u), self.time_of(v)
            if u == v:
                tags.append("self_edge")
                must_refuse = "non-forward (self) edge"
            elif tu == tv:
                tags.append("same_frame")
                must_refuse = "non-forward (same frame) edge"
            elif tu > tv:
                tags.append("backward")
                must_refuse = "non-forward (backward) edge"
            if tv - tu > 1:
                tags.append("skip")
            parents = [p for p in g.predecessors(v)]
            if g.has_edge(u, v):
                tags.append("existing_edge")
            if parents and parents != [u]:
                tags.append("target_has_parent")
                if not force and must_refuse is None:
                    must_refuse = "merge without force"
                if g.out_degree(parents[0]) >= 2:
                    tags.append("over_division_edge")
            kids = [c for c in g.successors(u) if c != v]
            if len(kids) >= 2:
                tags.append("source_divides")
                if not force and must_refuse is None:
                    must_refuse = "third child"
            elif len(kids) == 1:
                tags.append("make_division")
            else:
                tags.append("join")
            if force:
                allowed = set(g.in_edges(v)) | set(g.out_edges(u))
        else:
            tags.append("invalid_unknown")
        out = self._user_action(
            op, lambda: UserAddEdge(tr, (self.N(u), self.N(v)), force=force), "ae", {"edge": (u, v), "force": force}, tags,
            named={"nodes": {u, v}, "tracks": set()},
            extra={"allowed_removals": allowed, "must_have_edges": [(u, v)], "reason": must_refuse or ("unknown" if "invalid_unknown" in tags else None)},
        )
        if self.active("C03") and must_refuse:
            if out["cls"] == "accepted":
                self.violate("C03", "C03.must_refuse", f"add_edge{(u, v)} force={force} was accepted although it is a {must_refuse}", op, tags)
            elif out.get("exc") != "InvalidActionError":
                self.violate("C03", "C03.must_refuse", f"add_edge{(u, v)} ({must_refuse}) was refused with {out.get('exc')} instead of InvalidActionError", op, tags, out.get("exc"))
            else:
                self.stat("C03.must_refuse_eval")
        if out["cls"] == "accepted":
            for tg in tags:
                self.count("ae_" + tg)
        elif must_refuse:
            self.count("ae_refused_" + must_refuse.split(" (")[0].replace(" ", "_"))
        self._maybe_reinvert(op, out)
        return out

    # ---- delete_edge
    def op_delete_edge(self, op):
        if not self.structural_ok():
            return None
        from funtracks.user_actions import UserDeleteEdge

        tr = self.tracks
        g = tr.graph
        tags = []
        if op.get("invalid") == "missing":
            ns = sorted(g.nodes)
            if len(ns) < 2:
                return None
            k = op["e"][1]
            u, v = ns[k % len(ns)], ns[(k // 3 + 1) % len(ns)]
            tries = 0
            while g.has_edge(u, v) and tries < len(ns):
                v = ns[(ns.index(v) + 1) % len(ns)]
                tries += 1
            if g.has_edge(u, v):
                return None
            e = (u, v)
            tags.append("invalid_missing")
        else:
            e = self.pick_edge(op["e"])
            if e is None:
                return None
            if g.out_degree(e[0]) >= 2:
                tags.append("division_edge")
            else:
                tags.append("normal_edge")
            if self.time_of(e[1]) - self.time_of(e[0]) > 1:
                tags.append("skip_edge")
        out = self._user_action(
            op, lambda: UserDeleteEdge(tr, (self.N(e[0]), self.N(e[1]))), "de", {"edge": e}, tags,
            named={"nodes": set(e), "tracks": set()},
            extra={"allowed_removals": {e}, "reason": "missing" if "invalid_missing" in tags else None},
        )
        if out["cls"] == "accepted":
            for tg in tags:
                self.count("de_" + tg)
        self._maybe_reinvert(op, out)
        return out

    # ---- swap
    def op_swap(self, op):
        if not self.structural_ok():
            return None
        from funtracks.user_actions import UserSwapPredecessors

        tr = self.tracks
        g = tr.graph
        cl = self.node_classes()
        a = self.pick_node(op["a"], cl)
        b = self.pick_node(op["b"], cl)
        if a is None or b is None:
            return None
        if a == b and len(cl["any"]) > 1:
            b = cl["any"][(cl["any"].index(a) + 1) % len(cl["any"])]
        inv = op.get("invalid")
        nodes = (a, b)
        if inv == "count":
            nodes = (a, b, a)
        elif inv == "unknown":
            nodes = (a, self.pick_node(["unknown", 0]))
        tags = []
        pa = list(g.predecessors(a)) if a in g.nodes else []
        pb = list(g.predecessors(b)) if b in g.nodes else []
        if pa and pb:
            tags.append("both")
        elif pa or pb:
            tags.append("one_sided")
        else:
            tags.append("none")
        if pa and pb and pa == pb:
            tags.append("same_pred")
        allowed = set(g.in_edges(a)) | set(g.in_edges(b)) if a in g.nodes and b in g.nodes else set()
        out = self._user_action(
            op, lambda: UserSwapPredecessors(tr, tuple(self.N(x) for x in nodes)), "sw", {"nodes": nodes}, tags,
            named={"nodes": {a, b} | set(pa) | set(pb), "tracks": set()},
            extra={"allowed_removals": allowed, "reason": inv or ("swap_" + "_".join(tags))},
        )
        if out["cls"] == "accepted":
            for tg in tags:
                self.count("sw_" + tg)
        self._maybe_reinvert(op, out)
        return out

    # ---- update_attrs
    def op_update_attrs(self, op):
        from funtracks.user_actions import UserUpdateNodeAttrs

        tr = self.tracks
        sel = op["n"] if op.get("invalid") != "unknown" else ["unknown", op["n"][1]]
        n = self.pick_node(sel)
        if n is None:
            return None
        key = op.get("key", "score")
        if op.get("invalid") == "bad_value":
            key = "score"
        tags = []
        protected = set(tr.annotators.all_features) | {tr.features.time_key}
        must_refuse = False
        val = op.get("val", 0.5)
        if key == "note":
            val = f"n{int(val * 1000)}"
        if key == "@time":
            key = tr.features.time_key
            val = int(val * 5)
        elif key == "@managed":
            ks = sorted(tr.annotators.all_features)
            key = ks[op.get("k", 0) % len(ks)]
            tags.append("managed_" + ("active" if key in tr.annotators.features else "inactive"))
            val = 1
        elif key == "@pos":
            pk = tr.features.position_key
            if self.with_seg or pk is None:
                key = "score"
            elif isinstance(pk, list):
                key = pk[op.get("k", 0) % len(pk)]
                val = float(int(val * 10))
            else:
                key = pk
                val = [float(int(val * 10))] * len(self.fshape)
        if key in protected:
            must_refuse = True
            tags.append("protected")
        attrs = {key: val}
        if op.get("multi"):
            attrs = {"score": 0.25, key: val}
        if op.get("invalid") == "bad_value" and not must_refuse:
            # invalid request: the second value cannot be stored (a 0-d array); the first
            # one must not stay written when the call raises
            attrs = {"score": 0.75, "note": np.asarray(1.0)}
            tags.append("invalid_bad_value")
        out = self._user_action(
            op, lambda: UserUpdateNodeAttrs(tr, self.N(n), attrs), "ua", {"node": n, "attrs": {k: repr(v) for k, v in attrs.items()}}, tags,
            named={"nodes": {n}, "tracks": set()}, extra={"allowed_removals": set(), "reason": "protected" if must_refuse else ("unknown" if n not in tr.graph.nodes else None)},
        )
        if self.active("C10") and must_refuse:
            if out["cls"] == "accepted":
                self.violate("C10", "C10.protected", f"attribute update of protected key {key!r} was accepted", op, tags)
            elif out.get("exc") != "ValueError":
                self.violate("C10", "C10.protected", f"attribute update of protected key {key!r} raised {out.get('exc')} instead of ValueError", op, tags, out.get("exc"))
            else:
                dd = observe.deep_diff(self.pre["deep"], observe.deep(tr, len(self.emissions)))
                if dd:
                    self.violate("C10", "C10.protected", f"refused update of protected key {key!r} changed {dd[:2]}", op, tags)
                else:
                    self.count("f_protected_" + ("time" if key == tr.features.time_key else "track_id" if key == tr.features.tracklet_key else "lineage_id" if key == tr.features.lineage_key else key))
        self._maybe_reinvert(op, out)
        return out

    # ---- paint
    def op_paint(self, op):
        if not (self.with_seg and self.structural_ok()):
            return None
        from funtracks.user_actions import UserUpdateSegmentation

        tr = self.tracks
        g = tr.graph
        seg = tr.segmentation
        t = op["t"] % self.T
        fr = seg[t]
        o = op.get("o", [0.3] * 3)
        ext = op.get("ext", [2] * 3)
        lo = [min(s - 1, int(f * s)) for f, s in zip(o, fr.shape)]
        hi = [min(s, l + max(1, e)) for l, e, s in zip(lo, ext, fr.shape)]
        mask = np.zeros(fr.shape, bool)
        mask[tuple(slice(l, h) for l, h in zip(lo, hi))] = True
        if op.get("big"):
            # a broad stroke: everything from the origin to the far corner of the frame
            mask[tuple(slice(l // 2, None) for l in lo)] = True
        vmode, varg = op["value"]
        inframe = sorted(n for n in g.nodes if self.time_of(n) == t)
        if vmode == "existing" and inframe:
            value = inframe[varg % len(inframe)]
            if op.get("whole"):
                pass
        elif vmode == "bg":
            value = 0
        else:
            vmode = "new"
            value = max(list(g.nodes) + [int(seg.max()), 0]) + 1 + (varg % 3)
        if op.get("target") is not None and inframe:
            # aim the stroke at a node of this frame so that overwriting happens
            tgt = inframe[op["target"] % len(inframe)]
            idx = np.argwhere(fr == tgt)
            if len(idx):
                c = idx[op["target"] % len(idx)]
                if op.get("whole"):
                    lo = idx.min(axis=0).tolist()
                    hi = (idx.max(axis=0) + 1).tolist()
                else:
                    lo = [max(0, int(x) - (e // 2)) for x, e in zip(c, ext)]
                    hi = [min(s, l + max(1, e)) for l, e, s in zip(lo, ext, fr.shape)]
                mask[:] = False
                mask[tuple(slice(l, h) for l, h in zip(lo, hi))] = True
                if op.get("big"):
                    mask[tuple(slice(l // 2, None) for l in lo)] = True
        noop = op.get("noop")
        if noop == "bg":
            # a stroke with the eraser over background only: nothing changes, but it is a
            # legal request (and a recorded, undoable, notifying action)
            value, vmode = 0, "bg"
            mask &= fr == 0
        elif noop == "empty":
            mask[:] = False  # an update that lists no pixels at all
        else:
            mask &= fr != value
        if not mask.any() and noop != "empty":
            return None
        olds = [int(x) for x in np.unique(fr[mask]).tolist()]
        updated = []
        for old in olds:
            idx = np.nonzero(mask & (fr == old))
            updated.append(((np.full(len(idx[0]), t), *idx), old))
        if op.get("order") == "rev":
            updated.reverse()
        saved = fr.copy()
        extra_frames = []  # (frame index, mask, saved copy) of further frames of this stroke
        two_frames_invalid = op.get("invalid") == "two_frames" and self.T > 1 and value != 0 and not noop
        n_more = 0 if noop else 1 if two_frames_invalid else (op.get("frames", 1) - 1 if value == 0 else 0)
        for k in range(n_more):
            # a stroke spanning several frames: legal for an erase (background), an
            # invalid request for a label (the library documents one time point per update)
            t2 = (t + (1 + k) * (-1 if op.get("frames_prev") else 1)) % self.T
            if t2 == t or any(t2 == e[0] for e in extra_frames):
                break
            fr2 = seg[t2]
            mask2 = mask & (fr2 != value)
            if mask2.any():
                extra_frames.append((t2, mask2, fr2.copy()))
                more = []
                for old in [int(x) for x in np.unique(fr2[mask2]).tolist()]:
                    idx = np.nonzero(mask2 & (fr2 == old))
                    more.append(((np.full(len(idx[0]), t2), *idx), old))
                # the client lists the frames in either order
                updated = more + updated if op.get("extra_first") else updated + more
        if op.get("merge_frames") and extra_frames:
            # a client that groups the changed pixels by old value only: one entry may span
            # several frames
            merged: dict = {}
            for px, old in updated:
                merged.setdefault(old, []).append(px)
            updated = [(tuple(np.concatenate([p[i] for p in pxs]) for i in range(len(pxs[0]))), old) for old, pxs in merged.items()]
            self.count("pt_merged_frame_entries")
        if op.get("split_entries"):
            # a client that forwards one entry per brush stroke: the pixels that had one old
            # value arrive in two entries
            split = []
            for px, old in updated:
                h = len(px[0]) // 2
                if h:
                    split += [(tuple(a[:h] for a in px), old), (tuple(a[h:] for a in px), old)]
                else:
                    split.append((px, old))
            updated = split
            self.count("pt_entries_split_per_stroke")
        tid = self.pick_track(op["track"])
        force = bool(op.get("force"))
        # classification
        tags = ["forced"] if force else []
        erased_all = []
        part = []
        for old in olds:
            if old == 0:
                continue
            if (saved[~mask] == old).any():
                part.append(old)
            else:
                erased_all.append(old)
        if noop:
            tags.append("noop_" + noop)
        elif value == 0:
            tags.append("erase_all" if erased_all else "erase_part")
        elif vmode == "new":
            tags.append("new_label")
            if not part and not erased_all:
                tags.append("on_background")
        else:
            tags.append("grow")
        if part:
            tags.append("over_part_of_other")
        if erased_all and value != 0:
            tags.append("over_all_of_other")
        if len(part) + len(erased_all) > 1:
            tags.append("over_several")
        # paint first (caller side of the protocol)
        fr[mask] = value
        for t2, mask2, _ in extra_frames:
            seg[t2][mask2] = value
        if extra_frames:
            tags.append("invalid_two_frames" if two_frames_invalid else "multi_frame_erase")
        painted = seg.copy()
        named_nodes = {value} | set(part) | set(erased_all)
        for t2, mask2, saved_fr2 in extra_frames:
            named_nodes |= {int(x) for x in np.unique(saved_fr2[mask2]).tolist()}
        named_nodes.discard(0)
        trk = tr.features.tracklet_key
        named_tracks = {tid} if vmode == "new" and not noop else set()
        allowed = None  # composite: forced-removal oracle not applied to paint
        out = self._user_action(
            op, lambda: UserUpdateSegmentation(tr, self.N(value), [(px, self.N(o)) for px, o in updated], self.NT(tid), force=force), "pt",
            {"t": t, "value": value, "olds": olds, "track": tid, "force": force, "npix": int(mask.sum())}, tags,
            named={"nodes": named_nodes, "tracks": named_tracks},
            extra={"allowed_removals": allowed, "reason": "paint_" + "_".join(x for x in tags if x != "forced")},
        )
        if op.get("scribble"):
            # a client that keeps one set of brush-coordinate arrays and overwrites them in
            # place for the next stroke: what it handed to the action must not change with it
            for px, _ in updated:
                for a in px:
                    a[...] = 0
            self.count("client_reuses_pixel_arrays")
        if out["cls"] != "accepted":
            # caller restores the painted pixels
            fr[mask] = saved[mask]
            for t2, mask2, saved_fr2 in extra_frames:
                seg[t2][mask2] = saved_fr2[mask2]
            if part or erased_all:
                self.count("pt_refused_after_overwrite")
        else:
            if vmode == "new" and not noop:
                out["new_node"] = value
            if self.active("C07") and not np.array_equal(tr.segmentation, painted):
                self.violate("C07", "C07.painted", "after an accepted paint the array differs from what the caller painted", op, tags)
            for tg in tags:
                self.count("pt_" + tg)
        self._maybe_reinvert(op, out)
        return out

    # ---- undo / redo
    def _history(self, op, kind):
        if not self.structural_ok():
            return None
        tr = self.tracks
        out = {"resolved": None}
        try:
            out["val"] = tr.undo() if kind == "undo" else tr.redo()
            out["cls"] = "returned"
        except StepTimeout:
            raise
        except Exception as e:  # noqa: BLE001
            if _from_dependency(e):
                self.guard("dependency_abort", f"{kind}: {type(e).__name__}: {str(e)[:100]}")
            out["cls"] = "crash"
            out["exc"] = type(e).__name__
            out["msg"] = str(e)[:200]
        return out

    def op_undo(self, op):
        return self._history(op, "undo")

    def op_redo(self, op):
        return self._history(op, "redo")

    # ---- enable / disable
    def op_enable(self, op):
        return self._toggle(op, True)

    def op_disable(self, op):
        return self._toggle(op, False)

    def _toggle(self, op, on):
        tr = self.tracks
        avail = sorted(tr.annotators.all_features)
        keys = [avail[i % len(avail)] if isinstance(i, int) else i[1:] for i in op["keys"]]
        keys = [k for k in keys if k in avail]
        keys = [k for k in keys if worldmod.shape_feature_supported(self.world, k)] if on else keys
        if not op.get("allow_ids", False):
            # re-computing ids renumbers every track/lineage while the undo history still
            # holds the old numbers; only the C10 profile schedules that (DESIGN §4 C10)
            keys = [k for k in keys if k not in (self.tk, self.lk)]
        if not keys and not op.get("unknown"):
            return None
        unknown = bool(op.get("unknown"))
        if unknown:
            keys = keys[: len(keys) // 2] + ["no_such_feature"] + keys[len(keys) // 2 :]
        tags = ["unknown_key"] if unknown else []
        out = {"resolved": {"keys": list(keys), "on": on}, "tags": tags}
        try:
            if on and op.get("pre_norecompute") and not unknown:
                tr.enable_features(list(keys), recompute=False)
                tags.append("pre_norecompute")
            (tr.enable_features if on else tr.disable_features)(list(keys))
            out["cls"] = "accepted"
        except StepTimeout:
            raise
        except (NotImplementedError,) as e:
            self.guard("dependency_abort", f"enable {keys}: {e}")
        except KeyError as e:
            out.update(cls="refused", exc="KeyError", msg=str(e)[:200])
        except Exception as e:  # noqa: BLE001
            if _from_dependency(e) or "math domain" in str(e):
                self.guard("dependency_abort", f"enable {keys}: {type(e).__name__}: {str(e)[:100]}")
            out.update(cls="crash", exc=type(e).__name__, msg=str(e)[:200])
        if out["cls"] == "accepted":
            for k in keys:
                self.epochs[k] = self.epochs.get(k, 0) + 1
                (self.model_active.add if on else self.model_active.discard)(k)
                if on and k in (self.tk, self.lk):
                    self.tainted.add(k)
            # the current timeline state is re-based: same point, new feature set
            self.timeline.T[self.timeline.p] = (observe.canon(tr), dict(self.epochs))
            if on and self.step_no > 0:
                self.count("f_enable_after_edits")
            if on and self.tk in keys:
                self.count("f_reenable_ids")
        if self.active("C10"):
            if unknown:
                if out["cls"] != "refused" or out.get("exc") != "KeyError":
                    self.violate("C10", "C10.unknown", f"{'enable' if on else 'disable'}_features({keys}) with an unknown key gave {out['cls']} {out.get('exc')} instead of KeyError", op, tags, out.get("exc"))
                else:
                    dd = observe.deep_diff(self.pre["deep"], observe.deep(tr, len(self.emissions)))
                    if dd:
                        self.violate("C10", "C10.unknown", f"refused {'enable' if on else 'disable'}_features({keys}) changed {dd[:2]}", op, tags)
                    else:
                        self.count("f_unknown_key")
            elif out["cls"] != "accepted":
                self.violate("C10", "C10.registry", f"{'enable' if on else 'disable'}_features({keys}) raised {out.get('exc')}: {out.get('msg')}", op, tags, out.get("exc"))
            elif on:
                self._check_enabled_values(op, keys, tags)
        elif out["cls"] == "crash":
            self.guard("toggle_crash", f"{keys} {out.get('exc')} {out.get('msg')}")
        if self.active("C20") and len(self.emissions) != self.pre["nem"]:
            self.violate("C20", "C20.count", "feature switch emitted a refresh", op, tags)
        return out

    def _check_enabled_values(self, op, keys, tags):
        """C10.values: right after enable-with-recompute every key equals its reference."""
        tr = self.tracks
        res = []
        ks = set(keys)
        if self.with_seg:
            res += oracles.node_measurements(tr, ks, "C10")
            try:
                res += oracles.shape_features(tr, ks, "C10")
            except (NotImplementedError, ValueError) as e:
                self.guard("dependency_abort", str(e))
            if "iou" in ks:
                res += oracles.iou_values(tr, "C10", "values")
        if self.tk in ks:
            res += [("C10.values", m) for _, m in oracles.track_partition(tr, self.tk)]
            res += [("C10.values", m) for _, m in oracles.lookups(tr, ("tracklet",), keys=(self.tk, self.lk))]
        if self.lk is not None and self.lk in ks:
            res += [("C10.values", m) for _, m in oracles.lineage_partition(tr, self.lk)]
            res += [("C10.values", m) for _, m in oracles.lookups(tr, ("lineage",), keys=(self.tk, self.lk))]
        for o, m in res:
            self.violate("C10", "C10.values", f"after enable_features({sorted(ks)}): {m}", op, tags)
            return
        self.count("c10_enable_values_checked")

    # ---- probes
    def op_primitive(self, op):
        """C01: apply a BasicAction within its documented preconditions; invert (state ==
        before), invert again (== after), invert a third time (== before: the session is
        not perturbed)."""
        if not self.structural_ok():
            return None
        from funtracks import actions as A

        tr = self.tracks
        g = tr.graph
        kind = op["kind"]
        cl = self.node_classes()
        tkey, trk = tr.features.time_key, tr.features.tracklet_key
        lk = tr.features.lineage_key
        mk = None
        resolved = {"kind": kind}
        if kind == "AddNode":
            t = op.get("t", 0) % self.T
            node = max(list(g.nodes) + [int(tr.segmentation.max()) if self.with_seg else 0, 0]) + 1 + op.get("k", 0) % 3
            attrs = {tkey: t, trk: tr.get_next_track_id()}
            if lk is not None and lk in tr.annotators.features:
                attrs[lk] = tr.get_next_lineage_id()
            px = None
            if self.with_seg:
                px = self._bg_pixels(t, op.get("pix", {}))
                if px is None:
                    return None
            else:
                pos = [float(int(f * s)) for f, s in zip(op.get("pos", [0.5] * 3), self.fshape)]
                pk = tr.features.position_key
                if isinstance(pk, list):
                    attrs.update(dict(zip(pk, pos)))
                else:
                    attrs[pk] = pos
            if op.get("score"):
                attrs["score"] = 0.125
            resolved.update(node=node, t=t)
            mk = lambda: A.AddNode(tr, node, attrs, pixels=px)  # noqa: E731
        elif kind == "DeleteNode":
            if not cl["isolated"]:
                return None
            node = cl["isolated"][op.get("k", 0) % len(cl["isolated"])]
            resolved.update(node=node)
            mk = lambda: A.DeleteNode(tr, node)  # noqa: E731
        elif kind == "AddEdge":
            ns = cl["any"]
            if len(ns) < 2:
                return None
            u = ns[op.get("k", 0) % len(ns)]
            cands = [v for v in ns if self.time_of(v) > self.time_of(u) and not g.has_edge(u, v)]
            if not cands:
                return None
            v = cands[op.get("j", 0) % len(cands)]
            resolved.update(edge=(u, v))
            attrs = {"conf": 0.375} if op.get("score") else None
            mk = lambda: A.AddEdge(tr, (u, v), attrs)  # noqa: E731
        elif kind == "DeleteEdge":
            e = self.pick_edge(["any", op.get("k", 0)])
            if e is None:
                return None
            resolved.update(edge=e)
            mk = lambda: A.DeleteEdge(tr, e)  # noqa: E731
        elif kind == "UpdateNodeSeg":
            if not self.with_seg or not cl["any"]:
                return None
            node = cl["any"][op.get("k", 0) % len(cl["any"])]
            t = self.time_of(node)
            fr = tr.segmentation[t]
            if op.get("added", True):
                px = self._bg_pixels(t, op.get("pix", {}))
                if px is None:
                    return None
                added = True
            else:
                idx = np.argwhere(fr == node)
                if len(idx) < 2:
                    return None
                take = idx[: max(1, len(idx) // 2)] if op.get("j", 0) % 2 == 0 else idx[-1:]
                px = (np.full(len(take), t), *[take[:, i] for i in range(take.shape[1])])
                added = False
            resolved.update(node=node, added=added, npix=len(px[0]))
            mk = lambda: A.UpdateNodeSeg(tr, node, px, added=added)  # noqa: E731
        elif kind == "UpdateTrackIDs":
            if not cl["any"]:
                return None
            node = cl["any"][op.get("k", 0) % len(cl["any"])]
            downstream = nx.descendants(g, node) | {node}
            ids_down = {g.nodes[n].get(trk) for n in downstream}
            if op.get("j", 0) % 2 == 0:
                new_id = tr.get_next_track_id()
            else:
                others = [i for i in self.track_ids_on_graph() if i not in ids_down]
                # only ids of other components: an id upstream in the same component would
                # merge bookkeeping lists, which is outside the documented use
                comp = nx.node_connected_component(g.to_undirected(as_view=True), node)
                ids_comp = {g.nodes[n].get(trk) for n in comp}
                others = [i for i in others if i not in ids_comp]
                if not others:
                    return None
                new_id = others[op.get("j", 0) % len(others)]
            new_lin = None
            if op.get("lineage") and lk in tr.annotators.features and g.in_degree(node) == 0:
                new_lin = tr.get_next_lineage_id()
            resolved.update(node=node, new_id=new_id, new_lin=new_lin)
            if new_id in ids_down:
                return None
            mk = lambda: A.UpdateTrackIDs(tr, node, new_id, new_lin)  # noqa: E731
        elif kind == "UpdateNodeAttrs":
            if not cl["any"]:
                return None
            node = cl["any"][op.get("k", 0) % len(cl["any"])]
            resolved.update(node=node)
            mk = lambda: A.UpdateNodeAttrs(tr, node, {"score": 0.0625 * (1 + op.get("j", 0) % 7)})  # noqa: E731
        else:
            return None
        before = self.pre["canon"]
        own = self.active("C01")
        out = {"resolved": resolved, "cls": "returned", "tags": ["primitive_" + kind]}
        nem = len(self.emissions)
        stages = []
        try:
            a = mk()
            after = observe.canon(tr)
            stages.append("apply")
            i1 = a.inverse()
            s1 = observe.canon(tr)
            stages.append("inverse")
            i2 = i1.inverse()
            s2 = observe.canon(tr)
            stages.append("inverse2")
            i2.inverse()
            s3 = observe.canon(tr)
            stages.append("inverse3")
        except StepTimeout:
            raise
        except Exception as e:  # noqa: BLE001
            if isinstance(e, (NotImplementedError,)) or "math domain" in str(e) or _from_dependency(e):
                self.guard("dependency_abort", str(e)[:120])
            if own:
                self.violate("C01", "C01.inverse" if len(stages) < 2 else "C01.inverse2", f"primitive {kind} {resolved}: raised {type(e).__name__}: {e} after stages {stages}", op, out["tags"], type(e).__name__)
                return out
            self.guard("probe_crash", f"{kind} {type(e).__name__} {e}")
        d1 = observe.canon_diff(before, s1)
        d2 = observe.canon_diff(after, s2)
        d3 = observe.canon_diff(before, s3)
        if own:
            if d1:
                self.violate("C01", "C01.inverse", f"primitive {kind} {resolved}: inverse did not restore the state: {d1[:3]}", op, out["tags"])
            elif d2:
                self.violate("C01", "C01.inverse2", f"primitive {kind} {resolved}: inverse of inverse differs from the applied state: {d2[:3]}", op, out["tags"])
            elif d3:
                self.violate("C01", "C01.inverse", f"primitive {kind} {resolved}: third inversion did not restore the state: {d3[:3]}", op, out["tags"])
            else:
                self.stat("C01.eval")
                self.count("c01_primitive_" + kind)
                self.case("primitive", kind, repr(sorted((k, v) for k, v in resolved.items() if k in ("added", "new_lin"))), observe.shape_hash(tr))
        elif d3:
            self.guard("probe_perturbed_state", kind)
        if self.active("C20") and len(self.emissions) != nem:
            self.violate("C20", "C20.count", f"primitive action {kind} emitted a refresh", op, out["tags"])
        return out

    def op_issue_ids(self, op):
        tr = self.tracks
        n = 1 + op.get("n", 0) % 4
        ids = tr._get_new_node_ids(n)
        out = {"cls": "returned", "resolved": {"n": n, "ids": list(ids)}}
        if self.active("C06"):
            if len(set(ids)) != len(ids) or any(i in tr.graph.nodes for i in ids):
                self.violate("C06", "C06.node_ids", f"_get_new_node_ids({n}) returned {ids}: duplicates or ids already in the graph", op)
            else:
                self.stat("C06.node_ids_eval")
        return out

    def op_query(self, op):
        """Read-only calls; C16 demands the deep snapshot is unchanged."""
        tr = self.tracks
        g = tr.graph
        cl = self.node_classes()
        ns = cl["any"]
        k = op.get("k", 0)
        called = []

        def call(name, fn):
            try:
                fn()
                called.append(name)
            except (KeyError, ValueError, nx.NetworkXError):
                called.append(name + "!")

        call("nodes", lambda: tr.nodes())
        call("edges", lambda: tr.edges())
        call("in_degree", lambda: tr.in_degree())
        call("out_degree", lambda: tr.out_degree())
        call("get_available_features", lambda: tr.get_available_features())
        if ns:
            n = ns[k % len(ns)]
            arr = np.array(ns[: 1 + k % 3])
            call("in_degree(nodes)", lambda: tr.in_degree(arr))
            call("out_degree(nodes)", lambda: tr.out_degree(arr))
            call("predecessors", lambda: tr.predecessors(n))
            call("successors", lambda: tr.successors(n))
            call("get_time", lambda: tr.get_time(n))
            call("get_times", lambda: tr.get_times(ns))
            if tr.features.position_key is not None and (not self.with_seg or tr.features.position_key in tr.features):
                call("get_positions", lambda: tr.get_positions(ns, incl_time=bool(k % 2)))
                call("get_position", lambda: tr.get_position(n))
            call("get_pixels", lambda: tr.get_pixels(n))
            for key in sorted(tr.features):
                if tr.features[key]["feature_type"] == "node":
                    call("get_node_attr", lambda key=key: tr.get_node_attr(n, key))
                    call("get_nodes_attr", lambda key=key: tr.get_nodes_attr(ns, key))
            call("get_track_id", lambda: tr.get_track_id(n))
            call("get_lineage_id", lambda: tr.get_lineage_id(n))
        es = sorted(g.edges)
        if es:
            e = es[k % len(es)]
            for key in sorted(tr.features):
                if tr.features[key]["feature_type"] == "edge":
                    call("get_edge_attr", lambda key=key: tr.get_edge_attr(e, key))
                    call("get_edges_attr", lambda key=key: tr.get_edges_attr(es, key))
        # deprecated but still public read accessors
        import warnings as _w

        with _w.catch_warnings():
            _w.simplefilter("ignore", DeprecationWarning)
            call("time_attr", lambda: tr.time_attr)
            call("pos_attr", lambda: tr.pos_attr)
            call("node_id_to_track_id", lambda: dict(tr.node_id_to_track_id))
            if ns and "area" in tr.features:
                call("get_area", lambda: tr.get_area(ns[k % len(ns)]))
                call("get_areas", lambda: tr.get_areas(ns))
            if es and "iou" in tr.features:
                call("get_iou", lambda: tr.get_iou(es[k % len(es)]))
                call("get_ious", lambda: tr.get_ious(es))
        call("get_next_track_id", lambda: tr.get_next_track_id())
        call("get_next_lineage_id", lambda: tr.get_next_lineage_id())
        call("max_track_id", lambda: tr.max_track_id)
        call("track_id_to_node", lambda: dict(tr.track_id_to_node))
        ids = self.track_ids_on_graph()
        for tid in (ids[: 3] + [max(ids + [0]) + 2]):
            for t in (-1, k % (self.T + 1), self.T):
                call("get_track_neighbors", lambda tid=tid, t=t: tr.get_track_neighbors(tid, t))
                call("has_track_id_at_time", lambda tid=tid, t=t: tr.has_track_id_at_time(tid, t))
        out = {"cls": "returned", "resolved": {"calls": len(called)}}
        if self.active("C16"):
            # (the id counters too: no call of the battery issues an id)
            dd = observe.deep_diff(self.pre["deep"], observe.deep(tr, len(self.emissions)), ignore=())
            if dd:
                self.violate("C16", "C16.query", f"read-only queries changed {dd[:2]}", op)
            else:
                self.stat("C16.eval")
                self.stat("C16.query_calls", len(called))
        if self.active("C20") and len(self.emissions) != self.pre["nem"]:
            self.violate("C20", "C20.count", "a query emitted a refresh", op)
        return out

    # ---- persistence (delegated)
    def op_save(self, op):
        return self.io.op_save(self, op) if self.io else None

    def op_export(self, op):
        return self.io.op_export(self, op) if self.io else None

    def op_reimport(self, op):
        return self.io.op_reimport(self, op) if self.io else None

    def op_restart(self, op):
        return self.io.op_restart(self, op) if self.io else None

    def adopt(self, tracks, same_keys=False):
        """Continue the session on a rebuilt object (crash-restart). `same_keys`: the
        rebuild keeps the attribute names of the id features (internal format, in-memory
        rebuild); the CSV and GEFF importers use the standard names."""
        self.tracks = tracks
        if not same_keys or self.tk is None:
            self.tk = tracks.features.tracklet_key
        if not same_keys or self.lk is None:
            self.lk = tracks.features.lineage_key
        self.with_seg = tracks.segmentation is not None
        worldmod.register_custom(tracks, self.world.get("score_default"))
        self._connect()
        self.epochs = {}
        self.tainted = set()
        self.last_canon = observe.canon(tracks)
        self.timeline = models.Timeline(self._snap(self.last_canon))
        # what the rebuilt object reports, plus the id features the client had on before the
        # restart (a saved registry with lineage ids switched off legitimately comes back so)
        had = {k for k in (self.tk, self.lk) if k in self.model_active}
        self.model_active = set(tracks.annotators.features) | had
        self.model_static = set(tracks.features) - set(tracks.annotators.all_features)
        self.restarts += 1

    # ---------------------------------------------------------------- init / end
    def check_initial(self):
        """'after construction' clauses: run the state oracles on the freshly built world."""
        self.step_no = -1
        op = {"op": "init"}
        tr = self.tracks
        checks = []
        if self.active("C16") and self._getter_diff:
            self.violate("C16", "C16.query", f"reading every registered feature of every element through get_node_attr / get_edge_attr changed {self._getter_diff[:2]}", op, ["init"])
            return
        if self.active("C03"):
            checks += oracles.structure(tr)
        if self.active("C04"):
            checks += oracles.track_partition(tr)
        if self.active("C05"):
            checks += oracles.lineage_partition(tr)
        if self.active("C06"):
            checks += oracles.lookups(tr) + oracles.queries(tr, self.T, [99])
        if self.with_seg:
            if self.active("C07"):
                checks += oracles.seg_correspondence(tr)
            if self.active("C08"):
                checks += oracles.node_measurements(tr) or (self._shape_check() or [])
            if self.active("C09"):
                checks += oracles.iou_values(tr, "C09", "bulk")
        for o, m in checks:
            self.violate(o.split(".")[0], o, "after construction: " + m, op, ["init"])
            break
        self.check_sibling("init")

    def finish(self):
        if self.violations or self.aborted:
            return
        self.check_sibling("finish")
        if self.violations:
            return
        if self.active("C02") and self.opts.get("drain", True):
            self.drain()
        if self.active("C20") and self.n_subs and not self.violations:
            per = {}
            for e in self.emissions:
                per[e[1]] = per.get(e[1], 0) + 1
            # emissions received on objects dropped by a restart are included: the
            # subscriber list is rebuilt, counts continue
            for i in range(self.n_subs):
                if per.get(i, 0) != self.expected_emissions:
                    self.violate("C20", "C20.total", f"subscriber {i} received {per.get(i, 0)} emissions over the run, {self.expected_emissions} successful changes happened", {"op": "finish"})
                    break
