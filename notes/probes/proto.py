"""Scratch prototype: random sessions against funtracks with oracles. NOT the framework."""
import warnings, random, sys, json, traceback, math, collections
warnings.simplefilter("ignore")
import networkx as nx, numpy as np
from funtracks.data_model import SolutionTracks
from funtracks.user_actions import *
from funtracks.actions import *
from funtracks.exceptions import InvalidActionError

def build_world(rng, with_seg, ndim, scale):
    T = rng.randint(3,6)
    shape = (T,8,8) if ndim==3 else (T,4,6,6)
    g = nx.DiGraph()
    seg = np.zeros(shape, dtype=np.int32) if with_seg else None
    nid = 1
    frames = collections.defaultdict(list)
    for t in range(T):
        k = rng.randint(0,3)
        for _ in range(k):
            # rectangle placement w/o overlap
            for attempt in range(10):
                lo = [rng.randint(0,s-2) for s in shape[1:]]
                hi = [min(s, l+rng.randint(1,3)) for l,s in zip(lo,shape[1:])]
                sl = (t,)+tuple(slice(l,h) for l,h in zip(lo,hi))
                if with_seg:
                    if (seg[sl]!=0).any(): continue
                    seg[sl]=nid
                    g.add_node(nid, time=t)
                else:
                    g.add_node(nid, time=t, pos=[float((l+h-1)/2) for l,h in zip(lo,hi)])
                frames[t].append(nid); nid+=rng.choice([1,1,2,5]); break
    # edges: forest forward in time
    nodes = sorted(g.nodes)
    for v in nodes:
        tv = g.nodes[v]["time"]
        cands = [u for u in nodes if g.nodes[u]["time"]<tv and tv-g.nodes[u]["time"]<=2 and g.out_degree(u)<2]
        if cands and rng.random()<0.7:
            g.add_edge(rng.choice(cands), v)
    return SolutionTracks(g, segmentation=seg, ndim=ndim, scale=scale), shape

def canon(tr):
    feats = sorted(tr.features.keys())
    nf = [k for k in feats if tr.features[k]["feature_type"]=="node"]
    ef = [k for k in feats if tr.features[k]["feature_type"]=="edge"]
    def norm(v):
        if isinstance(v,(list,tuple,np.ndarray)): return tuple(norm(x) for x in v)
        if isinstance(v,(np.integer,)): return int(v)
        if isinstance(v,(np.floating,float)):
            v=float(v); return "nan" if math.isnan(v) else v
        return v
    nodes = {n: tuple((k,norm(tr.get_node_attr(n,k))) for k in nf) for n in tr.graph.nodes}
    edges = {e: tuple((k,norm(tr.get_edge_attr(e,k))) for k in ef) for e in tr.graph.edges}
    seg = None if tr.segmentation is None else tr.segmentation.tobytes()
    return (tuple(sorted(nodes.items())), tuple(sorted(edges.items())), seg)

def diff(a,b):
    out=[]
    da,db=dict(a[0]),dict(b[0])
    for n in sorted(set(da)|set(db)):
        if da.get(n)!=db.get(n): out.append(("node",n,da.get(n),db.get(n)))
    da,db=dict(a[1]),dict(b[1])
    for n in sorted(set(da)|set(db)):
        if da.get(n)!=db.get(n): out.append(("edge",n,da.get(n),db.get(n)))
    if a[2]!=b[2]: out.append(("seg",))
    return out

class Viol(Exception):
    def __init__(s,prop,msg): s.prop=prop; s.msg=msg; super().__init__(f"{prop}: {msg}")

def check_invariants(tr, viols):
    g=tr.graph
    # C03
    for n in g.nodes:
        if g.in_degree(n)>1: viols.append(("C03",f"in_degree {n}"))
        if g.out_degree(n)>2: viols.append(("C03",f"out_degree {n}"))
    for u,v in g.edges:
        if tr.get_time(u)>=tr.get_time(v): viols.append(("C03",f"non-forward edge {(u,v)}"))
    # C04
    gc=g.copy()
    for n in g.nodes:
        if g.out_degree(n)>=2: gc.remove_edges_from(list(g.out_edges(n)))
    seen={}
    for i,comp in enumerate(nx.weakly_connected_components(gc)):
        ids={tr.get_track_id(n) for n in comp}
        if len(ids)!=1: viols.append(("C04",f"segment {sorted(comp)} has ids {ids}"))
        for x in ids:
            if x in seen and seen[x]!=i: viols.append(("C04",f"id {x} on two segments"))
            seen[x]=i
    # C05
    seen={}
    for i,comp in enumerate(nx.weakly_connected_components(g)):
        ids={tr.get_lineage_id(n) for n in comp}
        if len(ids)!=1: viols.append(("C05",f"component {sorted(comp)} has lineages {ids}"))
        for x in ids:
            if x in seen and seen[x]!=i: viols.append(("C05",f"lineage {x} on two components"))
            seen[x]=i
    # C06
    ta=tr.track_annotator
    by=collections.defaultdict(list)
    for n in g.nodes: by[tr.get_track_id(n)].append(n)
    for k,v in ta.tracklet_id_to_nodes.items():
        if sorted(v)!=sorted(by.get(k,[])): viols.append(("C06",f"tracklet lookup {k}: {v} vs {by.get(k)}"))
    for k in by:
        if k not in ta.tracklet_id_to_nodes: viols.append(("C06",f"tracklet lookup missing {k}"))
    by=collections.defaultdict(list)
    for n in g.nodes: by[tr.get_lineage_id(n)].append(n)
    for k,v in ta.lineage_id_to_nodes.items():
        if sorted(v)!=sorted(by.get(k,[])): viols.append(("C06",f"lineage lookup {k}: {v} vs {by.get(k)}"))
    for k in by:
        if k not in ta.lineage_id_to_nodes: viols.append(("C06",f"lineage lookup missing {k}"))
    if tr.get_next_track_id() in {tr.get_track_id(n) for n in g.nodes}: viols.append(("C06","next track id in use"))
    if tr.get_next_lineage_id() in {tr.get_lineage_id(n) for n in g.nodes}: viols.append(("C06","next lineage id in use"))
    # C07
    if tr.segmentation is not None:
        seg=tr.segmentation
        labels=set(np.unique(seg).tolist())-{0}
        for l in labels:
            if l not in g.nodes: viols.append(("C07",f"label {l} without node"))
        for n in g.nodes:
            t=tr.get_time(n)
            where=np.nonzero((seg==n).reshape(seg.shape[0],-1).any(axis=1))[0].tolist()
            if where!=[t]: viols.append(("C07",f"node {n} t={t} labels frames {where}"))
        # C08 area,pos
        sc = tr.scale[1:] if tr.scale is not None else [1.0]*(seg.ndim-1)
        for n in g.nodes:
            t=tr.get_time(n); m=seg[t]==n
            if not m.any(): continue
            if "area" in tr.features:
                a=tr.get_node_attr(n,"area"); ref=m.sum()*float(np.prod(sc))
                if a is None or abs(a-ref)>1e-9: viols.append(("C08",f"area {n}: {a} vs {ref}"))
            p=tr.get_node_attr(n,"pos"); ref=[float(np.mean(ix)*s) for ix,s in zip(np.nonzero(m),sc)]
            if p is None or any(abs(x-y)>1e-9 for x,y in zip(p,ref)): viols.append(("C08",f"pos {n}: {p} vs {ref}"))
        if "iou" in tr.features:
            for u,v in g.edges:
                A=seg[tr.get_time(u)]==u; B=seg[tr.get_time(v)]==v
                un=(A|B).sum(); ref=(A&B).sum()/un if un else 0
                val=tr.get_edge_attr((u,v),"iou")
                if val is None or abs(val-ref)>1e-12: viols.append(("C09",f"iou {(u,v)}: {val} vs {ref}"))

def run(seed, steps=40, verbose=False):
    rng=random.Random(seed)
    with_seg=rng.random()<0.5; ndim=rng.choice([3,3,4])
    scale=rng.choice([None,[1.0]*ndim,[1.0,2.0,0.5,1.5][:ndim] if ndim==4 else [1.0,2.0,0.5]])
    tr,shape=build_world(rng,with_seg,ndim,scale)
    if with_seg and rng.random()<0.7: tr.enable_features(["iou"])
    emitted=[]
    tr.refresh.connect(lambda *a: emitted.append(a))
    viols=[]; check_invariants(tr,viols)
    init_viols=list(viols)
    timeline=[canon(tr)]; ptr=0
    log=[]
    T=shape[0]
    for step in range(steps):
        nodes=sorted(tr.graph.nodes); edges=sorted(tr.graph.edges)
        kind=rng.choice(["add_node","del_node","add_edge","add_edge","del_edge","swap","undo","undo","redo","paint","attrs"])
        before=canon(tr); hist=(len(tr.action_history.undo_stack),len(tr.action_history.redo_stack)); emitted.clear()
        desc=None; exc=None; painted=None
        try:
            if kind=="add_node":
                t=rng.randrange(T); tid=rng.choice([tr.get_next_track_id()]+[tr.get_track_id(n) for n in nodes][:3]+[rng.randint(1,12)])
                nid=rng.choice([tr._get_new_node_ids(1)[0], rng.randint(1,40)]); force=rng.random()<0.5
                attrs={"time":t,"track_id":tid}
                pix=None
                if with_seg:
                    free=np.argwhere(tr.segmentation[t]==0)
                    if len(free)==0: continue
                    k=rng.randint(1,min(4,len(free))); sel=free[rng.sample(range(len(free)),k)]
                    pix=(np.full(k,t),)+tuple(sel[:,i] for i in range(sel.shape[1]))
                elif rng.random()<0.85: attrs["pos"]=[float(rng.randint(0,7)) for _ in shape[1:]]
                desc=("add_node",nid,t,tid,force); UserAddNode(tr,nid,attrs,pixels=pix,force=force)
            elif kind=="del_node":
                if not nodes: continue
                n=rng.choice(nodes); desc=("del_node",n); UserDeleteNode(tr,n)
            elif kind=="add_edge":
                if len(nodes)<2: continue
                u,v=rng.sample(nodes,2); force=rng.random()<0.5
                if rng.random()<0.8 and tr.get_time(u)>=tr.get_time(v): u,v=v,u
                desc=("add_edge",u,v,force); UserAddEdge(tr,(u,v),force=force)
            elif kind=="del_edge":
                if not edges: continue
                e=rng.choice(edges); desc=("del_edge",e); UserDeleteEdge(tr,e)
            elif kind=="swap":
                if len(nodes)<2: continue
                u,v=rng.sample(nodes,2); desc=("swap",u,v); UserSwapPredecessors(tr,(u,v))
            elif kind=="undo": desc=("undo",); r=tr.undo()
            elif kind=="redo": desc=("redo",); r=tr.redo()
            elif kind=="attrs":
                if not nodes: continue
                n=rng.choice(nodes); desc=("attrs",n); UserUpdateNodeAttrs(tr,n,{"score":rng.random()})
            elif kind=="paint":
                if not with_seg: continue
                t=rng.randrange(T); fr=tr.segmentation[t]
                lo=[rng.randint(0,s-1) for s in fr.shape]; hi=[min(s,l+rng.randint(1,3)) for l,s in zip(lo,fr.shape)]
                mask=np.zeros(fr.shape,bool); mask[tuple(slice(l,h) for l,h in zip(lo,hi))]=True
                inframe=[n for n in nodes if tr.get_time(n)==t]
                val=rng.choice([0]+inframe+[max(nodes+[0])+rng.randint(1,3)])
                mask&=(fr!=val)
                if not mask.any(): continue
                olds=np.unique(fr[mask]).tolist(); up=[]
                for o in olds:
                    idx=np.nonzero(mask&(fr==o)); up.append(((np.full(len(idx[0]),t),)+idx,o))
                painted=(t,mask.copy(),fr.copy())
                fr[mask]=val
                tid=rng.choice([tr.get_next_track_id()]+[tr.get_track_id(n) for n in nodes][:3]); force=rng.random()<0.5
                desc=("paint",t,val,olds,tid,force,int(mask.sum()))
                after_paint=tr.segmentation.copy()
                UserUpdateSegmentation(tr,val,up,tid,force=force)
                if not (tr.segmentation==after_paint).all(): viols.append(("C07","array differs from painted"))
        except (InvalidActionError,ValueError,KeyError) as e:
            exc=e
            if painted is not None:
                t,mask,old=painted; tr.segmentation[t][mask]=old[mask]
        if desc is None: continue
        after=canon(tr)
        log.append((desc, type(exc).__name__ if exc else None, str(exc) if exc else None))
        stepv=[]
        if exc is not None:
            if after!=before: stepv.append(("C11",f"state changed after refused {desc}: {diff(before,after)[:3]}"))
            if (len(tr.action_history.undo_stack),len(tr.action_history.redo_stack))!=hist: stepv.append(("C11","history changed"))
            if emitted: stepv.append(("C20","emitted on refusal"))
        elif kind=="undo":
            if ptr>0:
                ptr-=1
                if not r: stepv.append(("C02","undo returned False"))
                if after!=timeline[ptr]: stepv.append(("C02",f"undo state mismatch {diff(timeline[ptr],after)[:3]}"))
                if len(emitted)!=1: stepv.append(("C20",f"undo emitted {len(emitted)}"))
            else:
                if r: stepv.append(("C02","undo returned True at start"))
                if after!=before: stepv.append(("C02","undo changed state at start"))
                if emitted: stepv.append(("C20","undo emitted at start"))
        elif kind=="redo":
            if ptr<len(timeline)-1:
                ptr+=1
                if not r: stepv.append(("C02","redo False"))
                if after!=timeline[ptr]: stepv.append(("C02",f"redo state mismatch {diff(timeline[ptr],after)[:3]}"))
                if len(emitted)!=1: stepv.append(("C20",f"redo emitted {len(emitted)}"))
            else:
                if r: stepv.append(("C02","redo True at end"))
                if after!=before: stepv.append(("C02","redo changed state"))
                if emitted: stepv.append(("C20","redo emitted at end"))
        else:
            timeline = timeline + list(reversed(timeline[ptr:len(timeline)-1])) + [after]; ptr=len(timeline)-1
            if len(emitted)!=1: stepv.append(("C20",f"{desc[0]} emitted {len(emitted)}"))
        check_invariants(tr,stepv)
        if stepv:
            viols.extend([(p,m,step,desc) for p,m in stepv])
            if verbose: print(step,desc,stepv)
            break
    return viols, log, init_viols

if __name__=="__main__":
    n=int(sys.argv[1]); cnt=collections.Counter(); ex={}
    for s in range(n):
        try:
            v,log,iv=run(s)
        except Exception as e:
            cnt[("HARNESS",type(e).__name__)]+=1; ex.setdefault(("HARNESS",type(e).__name__),(s,traceback.format_exc()[-1500:]))
            continue
        for x in v[:1]:
            import re as _re
            key=(x[0], x[3][0] if len(x)>3 else "init", _re.sub(r"[0-9.]+|\(.*|\[.*|\{.*","#",x[1])[:60])
            cnt[key]+=1; ex.setdefault(key,(s,x,log[-4:]))
    for k,c in cnt.most_common(): print(c,k,"\n    ",ex[k])
