import warnings; warnings.simplefilter("ignore")
import networkx as nx
from funtracks.data_model import SolutionTracks
from funtracks.user_actions import *
g=nx.DiGraph(); g.add_node(1,time=0,pos=[1,1]); g.add_node(2,time=1,pos=[2,2])
tr=SolutionTracks(g,ndim=3); em=[]
tr.refresh.connect(lambda *a: em.append(a))
UserAddEdge(tr,(1,2)); tr.undo(); tr.redo(); UserDeleteEdge(tr,(1,2)); UserAddNode(tr,7,{"time":2,"track_id":9,"pos":[0,0]}); UserUpdateNodeAttrs(tr,7,{"score":1}); UserDeleteNode(tr,7); print(em)
print(tr.undo(), tr.undo(), tr.undo(), tr.undo(), tr.undo(), tr.undo(), tr.undo()); print(len(em))
