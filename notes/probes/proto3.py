"""Scratch prototype 3: exports/imports after sessions (C14, C15, C16)."""
import warnings, random, sys, traceback, math, collections, re, tempfile, pathlib, shutil, copy, os
warnings.simplefilter("ignore")
os.environ["TQDM_DISABLE"]="1"
import networkx as nx, numpy as np, pandas as pd
from funtracks.data_model import SolutionTracks
from funtracks.user_actions import *
from funtracks.exceptions import InvalidActionError
from funtracks.import_export import export_to_geff, export_to_csv, import_from_geff, save_tracks, load_tracks, tracks_from_df
from proto import build_world, canon, diff

def deep_snapshot(tr):
    g=tr.graph
    def norm(v):
        if isinstance(v,np.ndarray): return ("nd",v.dtype.str,v.shape,v.tobytes())
        if isinstance(v,(list,tuple)): return (type(v).__name__,)+tuple(norm(x) for x in v)
        if isinstance(v,np.generic): return (type(v).__name__,v.item())
        return (type(v).__name__,v)
    return dict(nodes={n:{k:norm(v) for k,v in d.items()} for n,d in g.nodes(data=True)},
        edges={e:{k:norm(v) for k,v in g.edges[e].items()} for e in g.edges},
        seg=None if tr.segmentation is None else (tr.segmentation.dtype.str,tr.segmentation.shape,tr.segmentation.tobytes()),
        scale=norm(tr.scale), ndim=tr.ndim, feats={k:dict(v) for k,v in tr.features.items()},
        fkeys=(tr.features.time_key,norm(tr.features.position_key),tr.features.tracklet_key,tr.features.lineage_key),
        active=sorted(tr.annotators.features), allf=sorted(tr.annotators.all_features),
        tl={k:sorted(v) for k,v in tr.track_annotator.tracklet_id_to_nodes.items() if v}, ll={k:sorted(v) for k,v in tr.track_annotator.lineage_id_to_nodes.items() if v},
        maxes=(tr.track_annotator.max_tracklet_id,tr.track_annotator.max_lineage_id,tr.node_id_counter),
        hist=(len(tr.action_history.undo_stack),len(tr.action_history.redo_stack)))

def snapdiff(a,b): return [k for k in a if a[k]!=b[k]]

def session(tr,rng,shape,with_seg,steps):
    T=shape[0]
    for _ in range(steps):
        nodes=sorted(tr.graph.nodes); edges=sorted(tr.graph.edges)
        kind=rng.choice(["add_node","del_node","add_edge","del_edge","swap","undo","redo","paint"])
        painted=None
        try:
            if kind=="add_node":
                t=rng.randrange(T); tid=rng.choice([tr.get_next_track_id()]+[tr.get_track_id(n) for n in nodes][:3]+[rng.randint(1,12)])
                nid=rng.choice([tr._get_new_node_ids(1)[0], rng.randint(1,40)]); attrs={"time":t,"track_id":tid}; pix=None
                if with_seg:
                    free=np.argwhere(tr.segmentation[t]==0)
                    if len(free)==0: continue
                    k=rng.randint(1,min(4,len(free))); sel=free[rng.sample(range(len(free)),k)]
                    pix=(np.full(k,t),)+tuple(sel[:,i] for i in range(sel.shape[1]))
                else: attrs["pos"]=[float(rng.randint(0,7)) for _ in shape[1:]]
                UserAddNode(tr,nid,attrs,pixels=pix,force=rng.random()<0.5)
            elif kind=="del_node" and nodes: UserDeleteNode(tr,rng.choice(nodes))
            elif kind=="add_edge" and len(nodes)>=2:
                u,v=rng.sample(nodes,2)
                if tr.get_time(u)>tr.get_time(v): u,v=v,u
                UserAddEdge(tr,(u,v),force=rng.random()<0.5)
            elif kind=="del_edge" and edges: UserDeleteEdge(tr,rng.choice(edges))
            elif kind=="swap" and len(nodes)>=2: UserSwapPredecessors(tr,tuple(rng.sample(nodes,2)))
            elif kind=="undo": tr.undo()
            elif kind=="redo": tr.redo()
            elif kind=="paint" and with_seg:
                t=rng.randrange(T); fr=tr.segmentation[t]
                lo=[rng.randint(0,s-1) for s in fr.shape]; hi=[min(s,l+rng.randint(1,3)) for l,s in zip(lo,fr.shape)]
                mask=np.zeros(fr.shape,bool); mask[tuple(slice(l,h) for l,h in zip(lo,hi))]=True
                inframe=[n for n in nodes if tr.get_time(n)==t]
                val=rng.choice([0]+inframe+[max(nodes+[0])+rng.randint(1,3)]); mask&=(fr!=val)
                if not mask.any(): continue
                # avoid C11 paint defect: only strokes onto background or own label
                olds=np.unique(fr[mask]).tolist(); up=[]
                for o in olds:
                    idx=np.nonzero(mask&(fr==o)); up.append(((np.full(len(idx[0]),t),)+idx,o))
                painted=(t,mask.copy(),fr.copy()); fr[mask]=val
                UserUpdateSegmentation(tr,val,up,tr.get_next_track_id(),force=True)
        except (InvalidActionError,ValueError,KeyError):
            if painted is not None:
                t,mask,old=painted; tr.segmentation[t][mask]=old[mask]

def cmp_tracks(a,b,keys,what,viols,seg=True):
    if set(a.graph.nodes)!=set(b.graph.nodes): viols.append(("C14",f"{what}: nodes differ {sorted(set(a.graph.nodes)^set(b.graph.nodes))[:5]}")); return
    if set(a.graph.edges)!=set(b.graph.edges): viols.append(("C14",f"{what}: edges differ")); return
    for n in a.graph.nodes:
        if a.get_time(n)!=b.get_time(n): viols.append(("C14",f"{what}: time {n}"))
        pa,pb=a.get_position(n),b.get_position(n)
        if list(map(float,pa))!=list(map(float,pb)): viols.append(("C14",f"{what}: pos {n} {pa} {pb}"))
        if a.get_track_id(n)!=b.get_track_id(n): viols.append(("C14",f"{what}: track id {n}"))
        for k in keys:
            va,vb=a.get_node_attr(n,k),b.get_node_attr(n,k)
            if not (va is None and vb is None) and not np.array_equal(np.asarray(va,dtype=float),np.asarray(vb,dtype=float),equal_nan=True): viols.append(("C14",f"{what}: attr {k} {n} {va} {vb}"))
    if seg and a.segmentation is not None:
        if b.segmentation is None or not np.array_equal(a.segmentation,b.segmentation): viols.append(("C14",f"{what}: seg differs"))

def run(seed):
    rng=random.Random(seed)
    with_seg=rng.random()<0.6; ndim=rng.choice([3,3,4])
    scale=rng.choice([None,[1.0]*ndim,[1.0,2.0,0.5,1.5][:ndim] if ndim==4 else [1.0,2.0,0.5]])
    tr,shape=build_world(rng,with_seg,ndim,scale)
    if with_seg and rng.random()<0.5: tr.enable_features(["iou"])
    session(tr,rng,shape,with_seg,rng.randint(0,25))
    viols=[]
    if tr.graph.number_of_nodes()==0: return viols,("empty",)
    d=pathlib.Path(tempfile.mkdtemp(dir="/dev/shm"))
    ax=["z","y","x"][-(ndim-1):]
    try:
        # ---- internal
        s0=deep_snapshot(tr); save_tracks(tr,d/"int"); s1=deep_snapshot(tr)
        if s0!=s1: viols.append(("C16",f"save_tracks mutated {snapdiff(s0,s1)}"))
        ld=load_tracks(d/"int",solution=True)
        nf=[k for k in tr.features if tr.features[k]["feature_type"]=="node" and k not in ("time","pos","track_id")]
        cmp_tracks(tr,ld,nf,"internal",viols)
        if (None if tr.scale is None else list(tr.scale))!=(None if ld.scale is None else list(ld.scale)): viols.append(("C14",f"internal scale {tr.scale} {ld.scale}"))
        if dict(ld.features)!=dict(tr.features) or (ld.features.time_key,ld.features.position_key,ld.features.tracklet_key,ld.features.lineage_key)!=(tr.features.time_key,tr.features.position_key,tr.features.tracklet_key,tr.features.lineage_key): viols.append(("C14","internal registry differs"))
        for e in tr.graph.edges:
            for k in tr.features.edge_features:
                if tr.get_edge_attr(e,k)!=ld.get_edge_attr(e,k): viols.append(("C14",f"internal edge attr {k}"))
        # ---- csv
        s0=deep_snapshot(tr); export_to_csv(tr,d/"t.csv"); s1=deep_snapshot(tr)
        if s0!=s1: viols.append(("C16",f"export_to_csv mutated {snapdiff(s0,s1)}"))
        df=pd.read_csv(d/"t.csv",float_precision="round_trip")
        c=tracks_from_df(df,node_name_map={"time":"t","pos":ax,"id":"id","parent_id":"parent_id","track_id":"track_id"})
        cmp_tracks(tr,c,[],"csv",viols,seg=False)
        # subset csv
        sub=set(rng.sample(sorted(tr.graph.nodes),rng.randint(1,min(3,tr.graph.number_of_nodes()))))
        export_to_csv(tr,d/"s.csv",node_ids=sub); df=pd.read_csv(d/"s.csv")
        exp=set(sub); 
        for n in sub: exp|=nx.ancestors(tr.graph,n)
        if set(df["id"])!=exp or len(df)!=len(exp): viols.append(("C15",f"csv subset {sorted(df['id'])} vs {sorted(exp)}"))
        pe={(int(p),int(i)) for p,i in zip(df["parent_id"],df["id"]) if not pd.isna(p)}
        if pe!=set(tr.graph.subgraph(exp).edges): viols.append(("C15","csv subset edges"))
        # ---- geff
        for fmt in (2,3):
            s0=deep_snapshot(tr); export_to_geff(tr,d/f"g{fmt}.zarr",zarr_format=fmt); s1=deep_snapshot(tr)
            if s0!=s1: viols.append(("C16",f"export_to_geff mutated {snapdiff(s0,s1)}"))
            nm={"time":"time","pos":ax,"track_id":"track_id","lineage_id":"lineage_id"}
            for k in nf:
                if k!="lineage_id": nm[k]=k
            try:
                gi=import_from_geff(d/f"g{fmt}.zarr"/"tracks",node_name_map=nm,segmentation_path=(d/f"g{fmt}.zarr"/"segmentation") if with_seg else None,scale=None if tr.scale is None else list(tr.scale))
                cmp_tracks(tr,gi,[k for k in nf],f"geff{fmt}",viols)
                for e in tr.graph.edges:
                    for k in tr.features.edge_features:
                        if tr.get_edge_attr(e,k)!=gi.get_edge_attr(e,k): viols.append(("C14",f"geff edge attr {k} {tr.get_edge_attr(e,k)} {gi.get_edge_attr(e,k)}"))
            except Exception as e:
                viols.append(("C14",f"geff{fmt} reimport raised {type(e).__name__}: {str(e)[:80]}"))
        # subset geff
        export_to_geff(tr,d/"gs.zarr",node_ids=sub)
        import zarr
        ids=set(np.asarray(zarr.open_group(d/"gs.zarr"/"tracks",mode="r")["nodes/ids"][:]).tolist())
        if ids!=exp: viols.append(("C15",f"geff subset {sorted(ids)} vs {sorted(exp)}"))
        eids={tuple(x) for x in np.asarray(zarr.open_group(d/"gs.zarr"/"tracks",mode="r")["edges/ids"][:]).tolist()}
        if eids!=set(tr.graph.subgraph(exp).edges): viols.append(("C15","geff subset edges"))
        if with_seg:
            sg=np.asarray(zarr.open_array(d/"gs.zarr"/"segmentation",mode="r")[:])
            ref=np.where(np.isin(tr.segmentation,sorted(exp)),tr.segmentation,0)
            if not np.array_equal(sg,ref): viols.append(("C15","geff subset seg"))
    finally:
        shutil.rmtree(d,ignore_errors=True)
    return viols,(with_seg,ndim,scale)

if __name__=="__main__":
    n=int(sys.argv[1]); cnt=collections.Counter(); ex={}
    for s in range(n):
        try: v,cfg=run(s)
        except Exception as e:
            k=("HARNESS",type(e).__name__,str(e)[:60]); cnt[k]+=1; ex.setdefault(k,(s,traceback.format_exc()[-1500:])); continue
        for x in v:
            key=(x[0],re.sub(r"[0-9.]+|\(.*|\[.*|\{.*","#",x[1])[:70]); cnt[key]+=1; ex.setdefault(key,(s,x,cfg))
    for k,c in cnt.most_common(): print(c,k,"\n    ",ex[k])
