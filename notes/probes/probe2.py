import warnings
warnings.simplefilter("ignore")
import networkx as nx, numpy as np, tempfile, pathlib
from funtracks.data_model import SolutionTracks
from funtracks.user_actions import *
from funtracks.exceptions import InvalidActionError
from funtracks.import_export import export_to_geff, export_to_csv, import_from_geff, save_tracks, load_tracks, tracks_from_df

# C03 same-frame edge with root target
g = nx.DiGraph(); g.add_node(1,time=0,pos=[1,1]); g.add_node(2,time=0,pos=[2,2]); g.add_node(3,time=1,pos=[2,2])
tr = SolutionTracks(g, ndim=3)
try:
    UserAddEdge(tr,(1,2)); print("same-frame ACCEPTED", list(tr.graph.edges))
except Exception as e: print("same-frame refused", e)
try:
    UserAddEdge(tr,(1,1)); print("self edge ACCEPTED", list(tr.graph.edges))
except Exception as e: print("self refused", type(e).__name__, e)

# C09: bulk skip edge
seg = np.zeros((4,6,6),dtype=np.int32)
seg[0,1:4,1:4]=1; seg[2,2:5,2:5]=2; seg[3,2:5,2:5]=3
g = nx.DiGraph(); g.add_node(1,time=0); g.add_node(2,time=2); g.add_node(3,time=3); g.add_edge(1,2); g.add_edge(2,3)
tr = SolutionTracks(g, segmentation=seg, ndim=3)
tr.enable_features(["iou"])
print("bulk iou", dict(tr.graph.edges))
UserDeleteEdge(tr,(1,2)); UserAddEdge(tr,(1,2)); print("incremental iou", dict(tr.graph.edges))

# C16: scale None geff export
d = pathlib.Path(tempfile.mkdtemp())
print("scale before", tr.scale); export_to_geff(tr, d/"g.zarr"); print("scale after", tr.scale)
# round trip geff
tr2 = import_from_geff(d/"g.zarr"/"tracks", node_name_map={"time":"time","pos":["y","x"],"track_id":"track_id","lineage_id":"lineage_id","area":"area"}, segmentation_path=d/"g.zarr"/"segmentation")
print({n:tr2.graph.nodes[n] for n in tr2.graph.nodes}); print(dict(tr2.graph.edges)); print(tr2.features.keys(), tr2.scale, (tr2.segmentation==tr.segmentation).all(), tr2.segmentation.dtype, tr.segmentation.dtype)
# csv
export_to_csv(tr, d/"t.csv"); print(open(d/"t.csv").read())
import pandas as pd
df = pd.read_csv(d/"t.csv", float_precision="round_trip")
tr3 = tracks_from_df(df, node_name_map={"time":"t","pos":["y","x"],"id":"id","parent_id":"parent_id","track_id":"track_id"})
print({n:tr3.graph.nodes[n] for n in tr3.graph.nodes}); print(dict(tr3.graph.edges)); print(tr3.features.keys())
# internal
save_tracks(tr, d/"int"); tr4 = load_tracks(d/"int", solution=True)
print({n:tr4.graph.nodes[n] for n in tr4.graph.nodes}); print(dict(tr4.graph.edges)); print(tr4.features.keys(), tr4.scale, tr.scale)
print(tr4.features == tr.features, tr4.features.position_key, tr4.features.tracklet_key, tr4.features.lineage_key)
