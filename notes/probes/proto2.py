"""Scratch prototype 2: C01 probes, C06 queries, C08 shape, C10 toggles, C20 payload."""
import warnings, random, sys, traceback, math, collections, re
warnings.simplefilter("ignore")
import networkx as nx, numpy as np
from funtracks.data_model import SolutionTracks
from funtracks.user_actions import *
from funtracks.actions import *
from funtracks.exceptions import InvalidActionError
from funtracks.features import Feature
from proto import build_world, canon, diff, check_invariants

RP2=["area","ellipse_axis_radii","circularity","perimeter"]

def ref_fresh(tr):
    """from-scratch values via a fresh SolutionTracks on copies (bulk path)."""
    g=nx.DiGraph()
    for n in tr.graph.nodes: g.add_node(n,time=tr.get_time(n))
    g.add_edges_from(tr.graph.edges)
    fr=SolutionTracks(g,segmentation=tr.segmentation.copy(),ndim=tr.ndim,scale=tr.scale)
    keys=[k for k in RP2+["iou"] if k in tr.features]
    fr.enable_features(keys)
    return fr,keys

def same(a,b):
    if a is None or b is None: return a is b
    a=np.asarray(a,dtype=float); b=np.asarray(b,dtype=float)
    return a.shape==b.shape and bool(np.all((a==b)|(np.isnan(a)&np.isnan(b))))

def check_queries(tr,T,viols):
    g=tr.graph
    tids={tr.get_track_id(n) for n in g.nodes}|{0,999}
    for tid in tids:
        members=sorted([n for n in g.nodes if tr.get_track_id(n)==tid],key=lambda n:(tr.get_time(n),n))
        for t in range(-1,T+1):
            before=[n for n in members if tr.get_time(n)<t]; after=[n for n in members if tr.get_time(n)>t]
            exp_p=before[-1] if before else None; exp_s=after[0] if after else None
            p,s=tr.get_track_neighbors(tid,t)
            # ties in time within a track would make this ambiguous; only compare times
            tp=None if p is None else tr.get_time(p); ts=None if s is None else tr.get_time(s)
            ep=None if exp_p is None else tr.get_time(exp_p); es=None if exp_s is None else tr.get_time(exp_s)
            if (tp,ts)!=(ep,es) or (p is not None and tr.get_track_id(p)!=tid) or (s is not None and tr.get_track_id(s)!=tid):
                viols.append(("C06",f"neighbors({tid},{t})={p,s} expected {exp_p,exp_s}"))
            if tr.has_track_id_at_time(tid,t)!=any(tr.get_time(n)==t for n in members):
                viols.append(("C06",f"has_track_id_at_time({tid},{t})"))

def run(seed, steps=40):
    rng=random.Random(seed)
    with_seg=rng.random()<0.6; ndim=rng.choice([3,3,4])
    iso=rng.random()<0.6
    scale=rng.choice([None,[1.0]*ndim]) if iso else ([1.0,2.0,0.5,1.5][:ndim] if ndim==4 else [1.0,2.0,0.5])
    tr,shape=build_world(rng,with_seg,ndim,scale)
    T=shape[0]
    # custom registered static feature
    tr.features["score"]=Feature(feature_type="node",value_type="float",num_values=1,display_name="score",required=False,default_value=None)
    for n in tr.graph.nodes:
        if rng.random()<0.7: tr.graph.nodes[n]["score"]=rng.random()
    avail=[]
    if with_seg:
        avail=["iou","area"]
        if ndim==3 and iso: avail+=["ellipse_axis_radii","circularity","perimeter"]
        for k in avail:
            if rng.random()<0.5 and k!="area": tr.enable_features([k])
    emitted=[]
    tr.refresh.connect(lambda *a: emitted.append(a))
    viols=[]; log=[]
    frozen={}  # disabled feature -> values snapshot
    for step in range(steps):
        nodes=sorted(tr.graph.nodes); edges=sorted(tr.graph.edges)
        kind=rng.choice(["add_node","del_node","add_edge","del_edge","swap","undo","redo","paint","attrs","prim","prim","toggle","toggle","bad_attr","bad_feature"])
        emitted.clear(); desc=None; exc=None; painted=None; act=None; stepv=[]
        dis_before={k:{n:tr.graph.nodes[n].get(k) for n in tr.graph.nodes} for k in avail if k not in tr.features and tr.features[k]["feature_type"]=="node"} if False else {}
        dis_keys=[k for k in avail if k not in tr.features]
        dis_before={k:({n:tr.graph.nodes[n].get(k) for n in tr.graph.nodes} if k!="iou" else {e:tr.graph.edges[e].get(k) for e in tr.graph.edges}) for k in dis_keys}
        try:
            if kind=="add_node":
                t=rng.randrange(T); tid=rng.choice([tr.get_next_track_id()]+[tr.get_track_id(n) for n in nodes][:3]+[rng.randint(1,12)])
                nid=rng.choice([tr._get_new_node_ids(1)[0], rng.randint(1,40)]); force=rng.random()<0.5
                attrs={"time":t,"track_id":tid}; pix=None
                if with_seg:
                    free=np.argwhere(tr.segmentation[t]==0)
                    if len(free)==0: continue
                    k=rng.randint(1,min(4,len(free))); sel=free[rng.sample(range(len(free)),k)]
                    pix=(np.full(k,t),)+tuple(sel[:,i] for i in range(sel.shape[1]))
                else: attrs["pos"]=[float(rng.randint(0,7)) for _ in shape[1:]]
                desc=("add_node",nid,t,tid,force); act=UserAddNode(tr,nid,attrs,pixels=pix,force=force)
                if emitted!=[(nid,)]: stepv.append(("C20",f"add_node payload {emitted}"))
            elif kind=="del_node":
                if not nodes: continue
                n=rng.choice(nodes); desc=("del_node",n); act=UserDeleteNode(tr,n)
            elif kind=="add_edge":
                if len(nodes)<2: continue
                u,v=rng.sample(nodes,2); force=rng.random()<0.5
                if rng.random()<0.8 and tr.get_time(u)>=tr.get_time(v): u,v=v,u
                desc=("add_edge",u,v,force); act=UserAddEdge(tr,(u,v),force=force)
            elif kind=="del_edge":
                if not edges: continue
                e=rng.choice(edges); desc=("del_edge",e); act=UserDeleteEdge(tr,e)
            elif kind=="swap":
                if len(nodes)<2: continue
                u,v=rng.sample(nodes,2); desc=("swap",u,v); act=UserSwapPredecessors(tr,(u,v))
            elif kind=="undo": desc=("undo",); tr.undo()
            elif kind=="redo": desc=("redo",); tr.redo()
            elif kind=="attrs":
                if not nodes: continue
                n=rng.choice(nodes); desc=("attrs",n); act=UserUpdateNodeAttrs(tr,n,{"score":rng.random()})
            elif kind=="bad_attr":
                if not nodes: continue
                n=rng.choice(nodes); key=rng.choice(["time","track_id","lineage_id","pos","area","iou","circularity","perimeter","ellipse_axis_radii"])
                desc=("bad_attr",n,key); b=canon(tr)
                try:
                    UserUpdateNodeAttrs(tr,n,{key:1}); 
                    if key in tr.annotators.all_features or key=="time": stepv.append(("C10",f"protected attr {key} accepted"))
                except ValueError: 
                    if canon(tr)!=b: stepv.append(("C11","bad_attr changed state"))
            elif kind=="bad_feature":
                desc=("bad_feature",); b=(canon(tr),sorted(tr.features),sorted(tr.annotators.features))
                try: 
                    (tr.enable_features if rng.random()<0.5 else tr.disable_features)(["nonsense"]+rng.sample(avail,min(1,len(avail)))); stepv.append(("C10","unknown feature accepted"))
                except KeyError:
                    if (canon(tr),sorted(tr.features),sorted(tr.annotators.features))!=b: stepv.append(("C10","unknown feature changed state"))
            elif kind=="toggle":
                if not avail: continue
                k=rng.choice(avail)
                if k in tr.features and k!="area": tr.disable_features([k]); desc=("disable",k)
                else: tr.enable_features([k]); desc=("enable",k)
                static={"time","score"}|({"pos"} if not with_seg else set())
                exp=static|set(tr.annotators.features)
                if set(tr.features)!=exp: stepv.append(("C10",f"registry {sorted(tr.features)} vs {sorted(exp)}"))
            elif kind=="prim":
                pk=rng.choice(["AddEdge","DeleteEdge","UpdateTrackIDs","UpdateNodeSeg","AddNode","DeleteNode","UpdateNodeAttrs"])
                s0=canon(tr); a=None
                if pk=="DeleteEdge" and edges: e=rng.choice(edges); a=DeleteEdge(tr,e)
                elif pk=="AddEdge" and len(nodes)>=2:
                    u,v=rng.sample(nodes,2)
                    if tr.get_time(u)>tr.get_time(v): u,v=v,u
                    if tr.get_time(u)<tr.get_time(v) and not tr.graph.has_edge(u,v): a=AddEdge(tr,(u,v))
                elif pk=="UpdateTrackIDs" and nodes:
                    n=rng.choice(nodes); a=UpdateTrackIDs(tr,n,tr.get_next_track_id(),rng.choice([None,tr.get_next_lineage_id()]))
                elif pk=="UpdateNodeSeg" and with_seg and nodes:
                    n=rng.choice(nodes); t=tr.get_time(n)
                    if rng.random()<0.5:
                        free=np.argwhere(tr.segmentation[t]==0)
                        if len(free):
                            k=rng.randint(1,min(3,len(free))); sel=free[rng.sample(range(len(free)),k)]
                            a=UpdateNodeSeg(tr,n,(np.full(k,t),)+tuple(sel[:,i] for i in range(sel.shape[1])),added=True)
                    else:
                        own=np.argwhere(tr.segmentation[t]==n)
                        if len(own)>1:
                            k=rng.randint(1,len(own)-1); sel=own[rng.sample(range(len(own)),k)]
                            a=UpdateNodeSeg(tr,n,(np.full(k,t),)+tuple(sel[:,i] for i in range(sel.shape[1])),added=False)
                elif pk=="DeleteNode" and nodes:
                    iso_nodes=[n for n in nodes if tr.graph.degree(n)==0]
                    if iso_nodes: a=DeleteNode(tr,rng.choice(iso_nodes))
                elif pk=="AddNode":
                    nid=max(nodes+[0])+1; t=rng.randrange(T); attrs={"time":t,"track_id":tr.get_next_track_id(),"lineage_id":tr.get_next_lineage_id(),"score":0.5}
                    pix=None
                    if with_seg:
                        free=np.argwhere(tr.segmentation[t]==0)
                        if len(free):
                            k=rng.randint(1,min(4,len(free))); sel=free[rng.sample(range(len(free)),k)]
                            pix=(np.full(k,t),)+tuple(sel[:,i] for i in range(sel.shape[1])); a=AddNode(tr,nid,attrs,pix)
                    else:
                        attrs["pos"]=[1.0]*(ndim-1); a=AddNode(tr,nid,attrs)
                elif pk=="UpdateNodeAttrs" and nodes:
                    a=UpdateNodeAttrs(tr,rng.choice(nodes),{"score":rng.random()})
                if a is None: continue
                desc=("prim",pk)
                s1=canon(tr); inv=a.inverse(); s2=canon(tr)
                if s2!=s0: stepv.append(("C01",f"prim {pk} inverse: {diff(s0,s2)[:2]}"))
                inv2=inv.inverse(); s3=canon(tr)
                if s3!=s1: stepv.append(("C01",f"prim {pk} inverse.inverse: {diff(s1,s3)[:2]}"))
                inv2.inverse()
                if canon(tr)!=s0: stepv.append(("C01",f"prim {pk} third inverse"))
                if emitted: stepv.append(("C20","primitive emitted"))
            elif kind=="paint":
                if not with_seg: continue
                t=rng.randrange(T); fr=tr.segmentation[t]
                lo=[rng.randint(0,s-1) for s in fr.shape]; hi=[min(s,l+rng.randint(1,3)) for l,s in zip(lo,fr.shape)]
                mask=np.zeros(fr.shape,bool); mask[tuple(slice(l,h) for l,h in zip(lo,hi))]=True
                inframe=[n for n in nodes if tr.get_time(n)==t]
                val=rng.choice([0]+inframe+[max(nodes+[0])+rng.randint(1,3)])
                mask&=(fr!=val)
                if not mask.any(): continue
                olds=np.unique(fr[mask]).tolist(); up=[]
                for o in olds:
                    idx=np.nonzero(mask&(fr==o)); up.append(((np.full(len(idx[0]),t),)+idx,o))
                painted=(t,mask.copy(),fr.copy()); fr[mask]=val
                tid=rng.choice([tr.get_next_track_id()]+[tr.get_track_id(n) for n in nodes][:3]); force=rng.random()<0.5
                desc=("paint",t,val,olds,tid,force,int(mask.sum())); isnew=val!=0 and val not in tr.graph
                act=UserUpdateSegmentation(tr,val,up,tid,force=force)
                exp=[(val,)] if isnew else [(None,)]
                if emitted!=exp: stepv.append(("C20",f"paint payload {emitted} expected {exp}"))
        except (InvalidActionError,ValueError,KeyError) as e:
            exc=e
            if painted is not None:
                t,mask,old=painted; tr.segmentation[t][mask]=old[mask]
        if desc is None: continue
        log.append((desc,type(exc).__name__ if exc else None))
        # direct inverse probe for user actions
        if act is not None and exc is None and rng.random()<0.5:
            s1=canon(tr); inv=act.inverse(); 
            inv2=inv.inverse(); s3=canon(tr)
            if s3!=s1: stepv.append(("C01",f"user {desc[0]} inverse.inverse: {diff(s1,s3)[:2]}"))
        # disabled features frozen (nodes/edges present before and after)
        for k,vals in dis_before.items():
            if k in tr.features: continue
            for key,v in vals.items():
                cur = (tr.graph.nodes[key].get(k) if key in tr.graph.nodes else "gone") if k!="iou" else (tr.graph.edges[key].get(k) if tr.graph.has_edge(*key) else "gone")
                if cur!="gone" and not (cur is v or same(cur,v)): stepv.append(("C10",f"disabled {k} changed on {key}: {v}->{cur} by {desc}"))
        check_invariants(tr,stepv)
        if step%5==0: check_queries(tr,T,stepv)
        if with_seg:
            fr_,keys=ref_fresh(tr)
            for k in keys:
                if k=="iou":
                    for e in tr.graph.edges:
                        if not same(tr.get_edge_attr(e,k),fr_.get_edge_attr(e,k)): stepv.append(("C09",f"iou {e} inc {tr.get_edge_attr(e,k)} bulk {fr_.get_edge_attr(e,k)}"))
                else:
                    for n in tr.graph.nodes:
                        if not same(tr.get_node_attr(n,k),fr_.get_node_attr(n,k)): stepv.append(("C08",f"{k} {n} inc {tr.get_node_attr(n,k)} bulk {fr_.get_node_attr(n,k)}"))
        if stepv:
            viols.extend([(p,m,step,desc) for p,m in stepv]); break
    return viols,log

if __name__=="__main__":
    n=int(sys.argv[1]); start=int(sys.argv[2]) if len(sys.argv)>2 else 0
    cnt=collections.Counter(); ex={}
    for s in range(start,start+n):
        try: v,log=run(s)
        except Exception as e:
            k=("HARNESS",type(e).__name__,str(e)[:50]); cnt[k]+=1; ex.setdefault(k,(s,traceback.format_exc()[-1200:])); continue
        for x in v[:1]:
            key=(x[0], x[3][0], re.sub(r"[0-9.]+|\(.*|\[.*|\{.*","#",x[1])[:60]); cnt[key]+=1; ex.setdefault(key,(s,x,log[-4:]))
    for k,c in cnt.most_common(): print(c,k,"\n    ",ex[k])
