"""Scratch: restart-and-continue sessions; per-axis worlds."""
import warnings, random, sys, collections, re, traceback, tempfile, pathlib, shutil, os
warnings.simplefilter("ignore"); os.environ["TQDM_DISABLE"]="1"
import zarr, dask
zarr.config.set({'async.concurrency':1,'threading.max_workers':1}); dask.config.set(scheduler='synchronous')
import networkx as nx, numpy as np, pandas as pd
from funtracks.data_model import SolutionTracks
from funtracks.user_actions import *
from funtracks.exceptions import InvalidActionError
from funtracks.import_export import export_to_geff, export_to_csv, import_from_geff, save_tracks, load_tracks, tracks_from_df
from proto import build_world, canon, check_invariants
from proto3 import session

def run(seed):
    rng=random.Random(seed)
    with_seg=rng.random()<0.5; ndim=rng.choice([3,3,4])
    scale=rng.choice([None,[1.0]*ndim,[1.0,2.0,0.5,1.5][:ndim] if ndim==4 else [1.0,2.0,0.5]])
    tr,shape=build_world(rng,with_seg,ndim,scale)
    peraxis=False
    if not with_seg and rng.random()<0.5:
        # rebuild with per-axis storage
        g=nx.DiGraph(); ax=["z","y","x"][-(ndim-1):]
        for n in tr.graph.nodes:
            p=tr.get_position(n); g.add_node(n,time=tr.get_time(n),**{a:float(v) for a,v in zip(ax,p)})
        g.add_edges_from(tr.graph.edges); tr=SolutionTracks(g,pos_attr=ax,ndim=ndim,scale=scale); peraxis=True
    viols=[]; d=pathlib.Path(tempfile.mkdtemp(dir="/dev/shm")); ax=["z","y","x"][-(ndim-1):]
    try:
        for phase in range(3):
            if not peraxis: session(tr,rng,shape,with_seg and tr.segmentation is not None,rng.randint(3,15))
            else:
                # tiny per-axis session
                for _ in range(rng.randint(3,12)):
                    nodes=sorted(tr.graph.nodes); edges=sorted(tr.graph.edges); k=rng.choice(["an","dn","ae","de","u","r"])
                    try:
                        if k=="an": UserAddNode(tr,max(nodes+[0])+1,{"time":rng.randrange(shape[0]),"track_id":rng.choice([tr.get_next_track_id()]+[tr.get_track_id(n) for n in nodes][:2]),**{a:float(rng.randint(0,7)) for a in ax}},force=rng.random()<0.5)
                        elif k=="dn" and nodes: UserDeleteNode(tr,rng.choice(nodes))
                        elif k=="ae" and len(nodes)>1:
                            u,v=rng.sample(nodes,2)
                            if tr.get_time(u)>tr.get_time(v): u,v=v,u
                            UserAddEdge(tr,(u,v),force=rng.random()<0.5)
                        elif k=="de" and edges: UserDeleteEdge(tr,rng.choice(edges))
                        elif k=="u": tr.undo()
                        elif k=="r": tr.redo()
                    except (InvalidActionError,ValueError,KeyError): pass
            sv=[]; check_invariants(tr,sv)
            if sv: viols.append((sv[0][0],f"phase {phase} before restart: {sv[0][1]}")); break
            if tr.graph.number_of_nodes()==0: break
            fmt=rng.choice(["int","geff","csv"]); before=canon(tr)
            try:
                if fmt=="int":
                    save_tracks(tr,d/f"i{phase}"); tr=load_tracks(d/f"i{phase}",solution=True)
                elif fmt=="geff":
                    export_to_geff(tr,d/f"g{phase}.zarr")
                    nm={"time":"time","track_id":"track_id","lineage_id":"lineage_id"}
                    if tr.segmentation is None: nm["pos"]=ax
                    sc=None if tr.scale is None else list(tr.scale)
                    tr=import_from_geff(d/f"g{phase}.zarr"/"tracks",node_name_map=nm,segmentation_path=(d/f"g{phase}.zarr"/"segmentation") if tr.segmentation is not None else None,scale=sc)
                    peraxis=False
                else:
                    export_to_csv(tr,d/f"c{phase}.csv"); df=pd.read_csv(d/f"c{phase}.csv",float_precision="round_trip")
                    sc=tr.scale
                    tr=tracks_from_df(df,node_name_map={"time":"t","pos":ax,"id":"id","parent_id":"parent_id","track_id":"track_id"},scale=None if sc is None else list(sc)); peraxis=False
            except Exception as e:
                viols.append(("C14",f"restart {fmt} raised {type(e).__name__}: {str(e)[:80]}")); break
            sv=[]; check_invariants(tr,sv)
            if sv: viols.append((sv[0][0],f"after restart {fmt}: {sv[0][1]}")); break
            if set(tr.graph.nodes)!={n for n,_ in before[0]} or set(tr.graph.edges)!={e for e,_ in before[1]}: viols.append(("C14",f"restart {fmt} graph differs")); break
    finally: shutil.rmtree(d,ignore_errors=True)
    return viols,None
if __name__=="__main__":
    n=int(sys.argv[1]); cnt=collections.Counter(); ex={}
    for s in range(n):
        try: v,_=run(s)
        except Exception as e:
            k=("HARNESS",type(e).__name__,str(e)[:60]); cnt[k]+=1; ex.setdefault(k,(s,traceback.format_exc()[-1500:])); continue
        for x in v[:1]:
            key=(x[0],re.sub(r"[0-9.]+|\(.*|\[.*|\{.*","#",x[1])[:70]); cnt[key]+=1; ex.setdefault(key,(s,x))
    for k,c in cnt.most_common(): print(c,k,"\n    ",ex[k])
    print("DONE")
