import warnings, random, tempfile, pathlib
warnings.simplefilter("ignore")
import numpy as np, networkx as nx
from proto3 import *
rng=random.Random(3)
with_seg=rng.random()<0.6; ndim=rng.choice([3,3,4])
scale=rng.choice([None,[1.0]*ndim,[1.0,2.0,0.5,1.5][:ndim] if ndim==4 else [1.0,2.0,0.5]])
tr,shape=build_world(rng,with_seg,ndim,scale)
if with_seg and rng.random()<0.5: tr.enable_features(["iou"])
session(tr,rng,shape,with_seg,rng.randint(0,25))
last=list(tr.graph.nodes)[-1]
print("last",last,tr.graph.nodes[last], "pixels", np.argwhere(tr.segmentation[tr.get_time(last)]==last).tolist())
