import warnings, tempfile, pathlib
warnings.simplefilter("ignore")
import networkx as nx, numpy as np
from funtracks.data_model import SolutionTracks
from funtracks.import_export import export_to_geff, import_from_geff, export_to_csv, tracks_from_df
import pandas as pd
seg=np.zeros((2,8,8),np.int32)
seg[0,1:3,1:3]=1
seg[1,0,0]=2; seg[1,7,7]=2   # disconnected mask: centroid (3.5,3.5) is background
g=nx.DiGraph(); g.add_node(1,time=0); g.add_node(2,time=1); g.add_edge(1,2)
tr=SolutionTracks(g,segmentation=seg,ndim=3)
d=pathlib.Path(tempfile.mkdtemp())
export_to_geff(tr,d/"g.zarr")
try:
    tr2=import_from_geff(d/"g.zarr"/"tracks", node_name_map={"time":"time","pos":["y","x"],"track_id":"track_id","lineage_id":"lineage_id","area":"area"}, segmentation_path=d/"g.zarr"/"segmentation")
    print("ok", tr2.graph.nodes(data=True))
except Exception as e: print("GEFF reimport EXC", type(e).__name__, e)
# without pos mapping (recompute from seg)
try:
    tr2=import_from_geff(d/"g.zarr"/"tracks", node_name_map={"time":"time","track_id":"track_id","lineage_id":"lineage_id","area":"area"}, segmentation_path=d/"g.zarr"/"segmentation")
    print("ok no-pos", tr2.graph.nodes(data=True), tr2.features.keys())
except Exception as e: print("GEFF reimport no-pos EXC", type(e).__name__, e)
# what about scale
tr=SolutionTracks(g.copy(),segmentation=seg.copy(),ndim=3,scale=[1.0,2.0,0.5])
seg2=seg.copy(); 
export_to_geff(tr,d/"g2.zarr")
try:
    tr2=import_from_geff(d/"g2.zarr"/"tracks", node_name_map={"time":"time","pos":["y","x"],"track_id":"track_id","lineage_id":"lineage_id","area":"area"}, segmentation_path=d/"g2.zarr"/"segmentation", scale=[1.0,2.0,0.5])
    print("ok scaled", tr2.graph.nodes(data=True), tr2.scale)
except Exception as e: print("GEFF reimport scaled EXC", type(e).__name__, e)
import zarr, json
print(json.dumps(dict(zarr.open_group(d/"g2.zarr"/"tracks").attrs),default=str)[:1500])
