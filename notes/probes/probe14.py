import warnings, tempfile, pathlib, errno, collections, os, shutil
warnings.simplefilter("ignore"); os.environ["TQDM_DISABLE"]="1"
import zarr, dask
zarr.config.set({'async.concurrency':1,'threading.max_workers':1}); dask.config.set(scheduler='synchronous')
import networkx as nx, numpy as np
from funtracks.data_model import SolutionTracks
from funtracks.import_export import export_to_geff, export_to_csv, save_tracks
from proto3 import deep_snapshot, snapdiff
PLAN={"fail_at":None,"n":0,"fn":None}
real={k:getattr(os,k) for k in ["mkdir","replace","link","unlink","rename","makedirs"]}
def wrap(name):
    def f(*a,**k):
        p=str(a[0]) if a else ""
        if "/dev/shm/" in p and PLAN["fn"]==name:
            PLAN["n"]+=1
            if PLAN["fail_at"]==PLAN["n"]: raise OSError(errno.ENOSPC,f"No space left on device (injected {name})")
        return real[name](*a,**k)
    return f
for k in real: setattr(os,k,wrap(k))
seg=np.zeros((3,8,8),np.int32); seg[0,1:3,1:3]=1; seg[1,2:4,2:4]=2; seg[2,2:4,2:4]=3
g=nx.DiGraph(); g.add_node(1,time=0); g.add_node(2,time=1); g.add_node(3,time=2); g.add_edge(1,2); g.add_edge(2,3)
tr=SolutionTracks(g,segmentation=seg,ndim=3,scale=[1.0,1.0,1.0]); tr.enable_features(["iou"])
for name,fn in [("internal",lambda d: save_tracks(tr,d/"a"/"int")),("geff2",lambda d: export_to_geff(tr,d/"g.zarr")),("geff3",lambda d: export_to_geff(tr,d/"g3.zarr",zarr_format=3)),("csv",lambda d: export_to_csv(tr,d/"t.csv",export_seg=True,seg_path=d/"s.tif"))]:
    for osfn in ["mkdir","replace","link","unlink","rename","makedirs"]:
        PLAN.update(fail_at=None,n=0,fn=None); d=pathlib.Path(tempfile.mkdtemp(dir="/dev/shm")); PLAN.update(fn=osfn); fn(d); total=PLAN["n"]; PLAN.update(fn=None); shutil.rmtree(d)
        if total==0: continue
        out=collections.Counter()
        for k in range(1,total+1):
            PLAN.update(fail_at=None,n=0,fn=None); d=pathlib.Path(tempfile.mkdtemp(dir="/dev/shm")); s0=deep_snapshot(tr); PLAN.update(fail_at=k,n=0,fn=osfn)
            try: fn(d); out["completed"]+=1
            except OSError: out["OSError"]+=1
            except Exception as e: out[type(e).__name__+":"+str(e)[:40]]+=1
            PLAN.update(fail_at=None,fn=None)
            if deep_snapshot(tr)!=s0: out["MUTATED"]+=1
            shutil.rmtree(d,ignore_errors=True)
        print(name,osfn,"calls",total,dict(out))
