import warnings, tempfile, pathlib, builtins, io, errno, re, collections
warnings.simplefilter("ignore")
import networkx as nx, numpy as np
from funtracks.data_model import SolutionTracks
from funtracks.import_export import export_to_geff, export_to_csv, save_tracks

real_open = builtins.open
LOG = collections.Counter()
PLAN = {"fail_at": None}
class Proxy:
    def __init__(self, f, path, mode): self._f=f; self._path=path; self._mode=mode
    def write(self, data):
        LOG[("write", self._path)] += 1
        PLAN["n"] = PLAN.get("n",0)+1
        if PLAN["fail_at"] is not None and PLAN["n"]==PLAN["fail_at"]:
            raise OSError(errno.ENOSPC, "No space left on device (injected)")
        return self._f.write(data)
    def __getattr__(self, k): return getattr(self._f, k)
    def __enter__(self): self._f.__enter__(); return self
    def __exit__(self, *a): return self._f.__exit__(*a)
    def __iter__(self): return iter(self._f)
def fake_open(file, mode="r", *a, **k):
    f = real_open(file, mode, *a, **k)
    if any(c in mode for c in "wax+") and isinstance(file,(str,pathlib.Path)) and "/tmp/" in str(file):
        p = re.sub(r"\.[0-9a-f]{32}\.partial$","",str(file)); p = re.sub(r"^/tmp/[^/]+/","",p)
        LOG[("open", p)] += 1
        return Proxy(f, p, mode)
    return f
builtins.open = fake_open; io.open = fake_open

seg=np.zeros((3,8,8),np.int32); seg[0,1:3,1:3]=1; seg[1,2:4,2:4]=2; seg[2,2:4,2:4]=3
g=nx.DiGraph(); g.add_node(1,time=0); g.add_node(2,time=1); g.add_node(3,time=2); g.add_edge(1,2); g.add_edge(2,3)
tr=SolutionTracks(g,segmentation=seg,ndim=3)
tr.enable_features(["iou"])
for name, fn in [("internal", lambda d: save_tracks(tr, d/"int")), ("csv", lambda d: export_to_csv(tr, d/"t.csv")), ("csvseg", lambda d: export_to_csv(tr, d/"t.csv", export_seg=True, seg_path=d/"s.tif")), ("geff", lambda d: export_to_geff(tr, d/"g.zarr")), ("geff3", lambda d: export_to_geff(tr, d/"g3.zarr", zarr_format=3))]:
    LOG.clear(); PLAN.update(fail_at=None, n=0)
    d=pathlib.Path(tempfile.mkdtemp())
    try:
        fn(d); print(name, "ok writes:", PLAN["n"], "files:", sum(1 for k in LOG if k[0]=="open"))
    except Exception as e: print(name, "EXC", type(e).__name__, e)
    total=PLAN["n"]
    outcomes=collections.Counter()
    for k in range(1,total+1):
        PLAN.update(fail_at=k, n=0); d=pathlib.Path(tempfile.mkdtemp())
        try: fn(d); outcomes["completed"]+=1
        except OSError as e: outcomes["OSError"]+=1
        except Exception as e: outcomes[type(e).__name__+":"+str(e)[:60]]+=1
    print("   fault sweep:", dict(outcomes))
print(sorted(k[1] for k in LOG if k[0]=="open")[:40])
