import warnings, copy
warnings.simplefilter("ignore")
import networkx as nx, numpy as np
from funtracks.data_model import SolutionTracks
from funtracks.user_actions import *
from funtracks.exceptions import InvalidActionError

def mk(nodes, edges, seg=None, ndim=3, scale=None):
    g = nx.DiGraph()
    for n,(t,pos) in nodes.items():
        if seg is None:
            g.add_node(n, time=t, pos=list(pos))
        else:
            g.add_node(n, time=t)
    g.add_edges_from(edges)
    return SolutionTracks(g, segmentation=seg, ndim=ndim, scale=scale)

def show(tr, msg=""):
    print(msg, {n:(tr.get_time(n), tr.get_track_id(n), tr.get_lineage_id(n)) for n in sorted(tr.graph.nodes)}, sorted(tr.graph.edges))

# C03: backward / same-frame edge
tr = mk({1:(0,(1,1)),2:(1,(2,2)),3:(1,(5,5)),4:(2,(3,3))}, [(1,2)])
show(tr,"init")
for e in [(4,3),(2,3),(3,3)]:
    try:
        UserAddEdge(tr, e); show(tr, f"ACCEPTED {e}")
    except Exception as ex:
        print("refused", e, type(ex).__name__, ex)

# C05: division-edge delete
tr = mk({1:(0,(1,1)),2:(1,(2,2)),3:(1,(5,5)),4:(2,(3,3)),5:(2,(6,6))}, [(1,2),(1,3),(2,4),(3,5)])
show(tr,"init")
UserDeleteEdge(tr,(1,3)); show(tr,"after delete div edge (1,3)")
# division creation
tr = mk({1:(0,(1,1)),2:(1,(2,2)),3:(1,(5,5)),5:(2,(6,6))}, [(1,2),(3,5)])
show(tr,"init")
UserAddEdge(tr,(1,3)); show(tr,"after add div edge (1,3)")
# delete dividing node
tr = mk({0:(0,(0,0)),1:(1,(1,1)),2:(2,(2,2)),3:(2,(5,5))}, [(0,1),(1,2),(1,3)])
show(tr,"init")
UserDeleteNode(tr,1); show(tr,"after delete dividing node 1")

# C11: forced add edge where source has 2 children and target has parent
tr = mk({1:(0,(1,1)),2:(1,(2,2)),3:(1,(5,5)),6:(0,(9,9)),7:(1,(9,8))}, [(1,2),(1,3),(6,7)])
show(tr,"init")
try:
    UserAddEdge(tr,(1,7),force=True); show(tr,"accepted?!")
except InvalidActionError as ex:
    print("refused:", ex, "forceable", ex.forceable); show(tr,"after refused forced add")
    print("undo stack", len(tr.action_history.undo_stack))
