import warnings, tempfile, pathlib
warnings.simplefilter("ignore")
import networkx as nx, numpy as np, pandas as pd
from funtracks.data_model import SolutionTracks
from funtracks.user_actions import *
from funtracks.import_export import export_to_geff, export_to_csv, import_from_geff, save_tracks, load_tracks, tracks_from_df
from proto3 import deep_snapshot, snapdiff
g=nx.DiGraph(); g.add_node(1,time=0,y=1.0,x=2.0); g.add_node(4,time=1,y=2.0,x=2.5); g.add_node(9,time=2,y=3.0,x=0.5); g.add_edge(1,4)
tr=SolutionTracks(g,pos_attr=["y","x"],ndim=3)
print("features",dict(tr.features).keys(),tr.features.position_key)
UserAddNode(tr,12,{"time":3,"track_id":1,"y":5.0,"x":5.0}); UserAddEdge(tr,(4,9)); UserDeleteNode(tr,4); tr.undo()
print(sorted(tr.graph.edges),{n:tr.graph.nodes[n] for n in tr.graph.nodes})
d=pathlib.Path(tempfile.mkdtemp())
for name,fn in [("int",lambda: save_tracks(tr,d/"int")),("csv",lambda: export_to_csv(tr,d/"t.csv")),("geff",lambda: export_to_geff(tr,d/"g.zarr"))]:
    s0=deep_snapshot(tr)
    try: fn(); s1=deep_snapshot(tr); print(name,"ok mutated:",snapdiff(s0,s1))
    except Exception as e: print(name,"EXC",type(e).__name__,e)
ld=load_tracks(d/"int",solution=True); print("int",ld.features.position_key,{n:ld.graph.nodes[n] for n in ld.graph.nodes}, sorted(ld.graph.edges))
c=tracks_from_df(pd.read_csv(d/"t.csv",float_precision="round_trip"),node_name_map={"time":"t","pos":["y","x"],"id":"id","parent_id":"parent_id","track_id":"track_id"}); print("csv",{n:c.graph.nodes[n] for n in c.graph.nodes})
gi=import_from_geff(d/"g.zarr"/"tracks",node_name_map={"time":"time","pos":["y","x"],"track_id":"track_id","lineage_id":"lineage_id"}); print("geff",{n:gi.graph.nodes[n] for n in gi.graph.nodes}, gi.scale)
# continue editing on each restarted object
for name,t in [("int",ld),("csv",c),("geff",gi)]:
    try:
        UserDeleteEdge(t,(1,4)); t.undo(); 
        if isinstance(t.features.position_key,list): UserAddNode(t,20,{"time":1,"track_id":t.get_next_track_id(),"y":1.0,"x":1.0})
        else: UserAddNode(t,20,{"time":1,"track_id":t.get_next_track_id(),"pos":[1.0,1.0]})
        print(name,"edit after restart ok", t.get_track_id(20), type(t.get_track_id(1)).__name__, type(t.get_time(1)).__name__, t.get_next_track_id())
    except Exception as e: print(name,"edit after restart EXC",type(e).__name__,e)
