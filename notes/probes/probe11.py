import warnings, tempfile, pathlib, builtins, io, re, hashlib, os, sys
warnings.simplefilter("ignore")
import networkx as nx, numpy as np
from funtracks.data_model import SolutionTracks
from funtracks.import_export import export_to_geff, import_from_geff
real_open=builtins.open; SEQ=[]
def fake_open(file, mode="r", *a, **k):
    if isinstance(file,(str,pathlib.Path)) and "/dev/shm/" in str(file):
        p=re.sub(r"\.[0-9a-f]{32}\.partial$","",str(file)); p=re.sub(r"^/dev/shm/[^/]+/","",p); SEQ.append((mode,p))
    return real_open(file, mode, *a, **k)
builtins.open=fake_open; io.open=fake_open
seg=np.zeros((5,70,70),np.int32); g=nx.DiGraph()
for i in range(1,6): seg[i-1,10*i:10*i+5,3:9]=i; g.add_node(i,time=i-1)
for i in range(1,5): g.add_edge(i,i+1)
tr=SolutionTracks(g,segmentation=seg,ndim=3); tr.enable_features(["iou"])
digs=[]
for rep in range(6):
    SEQ.clear(); d=pathlib.Path(tempfile.mkdtemp(dir="/dev/shm"))
    export_to_geff(tr,d/"g.zarr",zarr_format=2 if rep%2==0 else 3)
    w=[s for s in SEQ]
    digs.append((rep%2,len(w),hashlib.sha1(repr(w).encode()).hexdigest()[:10]))
    SEQ.clear()
    import_from_geff(d/"g.zarr"/"tracks",node_name_map={"time":"time","pos":["y","x"],"track_id":"track_id","lineage_id":"lineage_id"},segmentation_path=d/"g.zarr"/"segmentation")
    digs.append(("read",len(SEQ),hashlib.sha1(repr(SEQ).encode()).hexdigest()[:10]))
print(digs)
import threading; print("threads:",[t.name for t in threading.enumerate()])
