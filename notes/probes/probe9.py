# N/A-property sanity: confirm these are pure functions with defects, to word the N/A lines precisely
import warnings; warnings.simplefilter("ignore")
import numpy as np
from funtracks.utils import ensure_unique_labels
a=np.zeros((3,4,4),int); a[0,0,0]=1; a[0,1,1]=2; a[2,0,0]=1
print("ensure_unique_labels frames labels:", [np.unique(f).tolist() for f in ensure_unique_labels(a)])
from funtracks.candidate_graph import compute_graph_from_points_list
pts=np.array([[0,1,1],[2,1,1],[3,1,1]],float)
g=compute_graph_from_points_list(pts,5.0); print("cand edges with gap at t=1:", list(g.edges))
from funtracks.import_export._name_mapping import infer_node_name_map
from funtracks.import_export._utils import get_default_key_to_feature_mapping
print(infer_node_name_map(["t","y","x","id","parent_id","pos"],["time","id","parent_id"],get_default_key_to_feature_mapping(3,display_name=False)))
