import warnings, tempfile, pathlib, builtins, io, errno, re, collections, os
warnings.simplefilter("ignore"); os.environ["TQDM_DISABLE"]="1"
import zarr, dask
zarr.config.set({'async.concurrency':1,'threading.max_workers':1}); dask.config.set(scheduler='synchronous')
import networkx as nx, numpy as np, pandas as pd
from funtracks.data_model import SolutionTracks
from funtracks.import_export import export_to_geff, export_to_csv, save_tracks, load_tracks, import_from_geff, tracks_from_df
from proto import canon
real_open=builtins.open
PLAN={"fail_at":None,"n":0,"kind":"read"}
class Proxy:
    def __init__(s,f): s._f=f
    def _tick(s,kind):
        if kind!=PLAN["kind"]: return
        PLAN["n"]+=1
        if PLAN["fail_at"]==PLAN["n"]: raise OSError(errno.EIO,"Input/output error (injected)")
    def read(s,*a): s._tick("read"); return s._f.read(*a)
    def readinto(s,*a): s._tick("read"); return s._f.readinto(*a)
    def readline(s,*a): s._tick("read"); return s._f.readline(*a)
    def write(s,d): s._tick("write"); return s._f.write(d)
    def __getattr__(s,k): return getattr(s._f,k)
    def __enter__(s): s._f.__enter__(); return s
    def __exit__(s,*a): return s._f.__exit__(*a)
    def __iter__(s): return iter(s._f)
    def __next__(s): s._tick("read"); return next(s._f)
def fake_open(file, mode="r", *a, **k):
    if isinstance(file,(str,pathlib.Path)) and "/dev/shm/" in str(file):
        if PLAN["kind"]=="open":
            PLAN["n"]+=1
            if PLAN["fail_at"]==PLAN["n"]: raise OSError(errno.EIO,"Input/output error (injected open)")
        return Proxy(real_open(file, mode, *a, **k))
    return real_open(file, mode, *a, **k)
builtins.open=fake_open; io.open=fake_open
seg=np.zeros((3,8,8),np.int32); seg[0,1:3,1:3]=1; seg[1,2:4,2:4]=2; seg[2,2:4,2:4]=3
g=nx.DiGraph(); g.add_node(1,time=0); g.add_node(2,time=1); g.add_node(3,time=2); g.add_edge(1,2); g.add_edge(2,3)
tr=SolutionTracks(g,segmentation=seg,ndim=3); tr.enable_features(["iou"])
d=pathlib.Path(tempfile.mkdtemp(dir="/dev/shm"))
save_tracks(tr,d/"int"); export_to_csv(tr,d/"t.csv"); export_to_geff(tr,d/"g.zarr")
ref=canon(tr)
def imp_int(): return load_tracks(d/"int",solution=True)
def imp_csv(): return tracks_from_df(pd.read_csv(d/"t.csv",float_precision="round_trip"),node_name_map={"time":"t","pos":["y","x"],"id":"id","parent_id":"parent_id","track_id":"track_id"})
def imp_geff(): return import_from_geff(d/"g.zarr"/"tracks",node_name_map={"time":"time","pos":["y","x"],"track_id":"track_id","lineage_id":"lineage_id","area":"area"},segmentation_path=d/"g.zarr"/"segmentation")
for name,fn in [("int",imp_int),("csv",imp_csv),("geff",imp_geff)]:
    for kind in ["read","open"]:
        PLAN.update(fail_at=None,n=0,kind=kind); base=fn(); total=PLAN["n"]
        out=collections.Counter()
        for k in range(1,total+1):
            PLAN.update(fail_at=k,n=0,kind=kind)
            try:
                t=fn()
                same = set(t.graph.nodes)==set(base.graph.nodes) and set(t.graph.edges)==set(base.graph.edges) and (t.segmentation is None)==(base.segmentation is None) and (t.segmentation is None or np.array_equal(t.segmentation,base.segmentation)) and all(t.graph.nodes[n]==base.graph.nodes[n] or str(t.graph.nodes[n])==str(base.graph.nodes[n]) for n in t.graph.nodes)
                out["returned_equal" if same else "RETURNED_DIFFERENT"]+=1
            except OSError: out["OSError"]+=1
            except Exception as e: out[type(e).__name__+":"+str(e)[:50]]+=1
        print(name,kind,"calls",total,dict(out))
