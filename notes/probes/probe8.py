import warnings
warnings.simplefilter("ignore")
import networkx as nx, numpy as np, time
from funtracks.data_model import SolutionTracks
from funtracks.user_actions import *
g=nx.DiGraph(); g.add_node(1,time=0,pos=[1,1]); g.add_node(2,time=2,pos=[2,2]); g.add_edge(1,2)
tr=SolutionTracks(g,ndim=3)
print(sorted(tr.graph.edges), tr.get_track_id(1))
try: UserAddNode(tr,5,{"time":1,"track_id":1})
except Exception as e: print("raised",type(e).__name__,e)
print("edges after refused add_node:",sorted(tr.graph.edges),"history",len(tr.action_history.undo_stack))
