import warnings, random
warnings.simplefilter("ignore")
import numpy as np, networkx as nx
from funtracks.data_model import SolutionTracks
from funtracks.user_actions import *
from proto import build_world, check_invariants
for seed in range(6):
    rng=random.Random(seed)
    tr,shape=build_world(rng,True,3,None)
    print("features",list(tr.features), "active",list(tr.annotators.features))
    for key in ["pos","track_id","lineage_id","area"]:
        tr.disable_features([key]); 
        errs=[]
        nodes=sorted(tr.graph.nodes); edges=sorted(tr.graph.edges)
        try:
            if edges: UserDeleteEdge(tr,edges[0])
            if len(nodes)>=2: 
                u,v=nodes[0],nodes[-1]
                if tr.get_time(u)<tr.get_time(v): UserAddEdge(tr,(u,v),force=True)
            if nodes: UserDeleteNode(tr,nodes[len(nodes)//2])
            tr.undo(); tr.undo()
        except Exception as e: errs.append(f"{type(e).__name__}: {e}")
        tr.enable_features([key])
        v=[]; check_invariants(tr,v)
        print(seed,key,"errors during disabled:",errs,"viol after re-enable:",v[:2], "registry", list(tr.features))
    break
