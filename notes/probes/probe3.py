import warnings, time
warnings.simplefilter("ignore")
import networkx as nx, numpy as np
from funtracks.data_model import SolutionTracks
from funtracks.user_actions import *
keys=["ellipse_axis_radii","circularity","perimeter","area"]
# 2D tiny masks
for shape, masks in [((2,8,8), [(0,[(1,1)]), (0,[(3,3),(3,4)]), (1,[(0,0),(0,1),(1,0),(1,1)]), (1,[(5,5),(7,7)])]),
                     ((2,4,6,6), [(0,[(1,1,1)]), (0,[(2,3,3),(2,3,4)]), (1,[(0,0,0),(0,0,1),(0,1,0),(0,1,1),(1,0,0),(1,0,1),(1,1,0),(1,1,1)]), (1,[(3,5,5),(0,3,3)]), (1,[(0,5,0),(1,5,0),(2,5,0),(3,5,0)])])]:
    seg=np.zeros(shape,np.int32); g=nx.DiGraph()
    for i,(t,px) in enumerate(masks,1):
        for p in px: seg[(t,)+p]=i
        g.add_node(i,time=t)
    for scale in [None,[1.0,2.0,0.5,1.5][:len(shape)]]:
        tr=SolutionTracks(g.copy(),segmentation=seg.copy(),ndim=len(shape),scale=scale)
        t0=time.time()
        try:
            tr.enable_features(keys)
            print(shape,scale,"ok %.3fs"%(time.time()-t0))
            for n in tr.graph.nodes: print("  ",n,{k:tr.get_node_attr(n,k) for k in keys})
        except Exception as e:
            import traceback; print(shape,scale,"EXC",type(e).__name__,e)
