#!/venv/bin/python
"""Re-run checks against an already confirmed seeded change (after the machinery changed).

usage: seeded_recheck.py <seeded-dir-name e.g. C07-d2> [props,comma-separated] [note]
applies seeded/<name>/patch.diff to a scratch copy of /repo/src under /dev/shm, runs
./check <prop> quick for the property of the change (and any extra ones) with VERIF_REPO
pointing at the copy, and records the outcome in meta.json under "rechecks".
"""
import json
import os
import shutil
import subprocess
import sys
import time

name = sys.argv[1]
prop = name[:3]
props = sys.argv[2].split(",") if len(sys.argv) > 2 and sys.argv[2] else [prop]
note = sys.argv[3] if len(sys.argv) > 3 else ""
src = f"/verif/seeded/{name}"
meta = json.load(open(f"{src}/meta.json"))
scratch = f"/dev/shm/seeded-recheck-{name}"
shutil.rmtree(scratch, ignore_errors=True)
os.makedirs(scratch + "/repo")
subprocess.run(f"cd /repo && git ls-files -z src | xargs -0 cp --parents -t {scratch}/repo", shell=True, check=True)
r = subprocess.run(f"cd {scratch}/repo && patch -p1 --no-backup-if-mismatch < {src}/patch.diff", shell=True, capture_output=True, text=True)
assert r.returncode == 0, r.stdout + r.stderr
head = subprocess.run("git -C /verif rev-parse --short HEAD", shell=True, capture_output=True, text=True).stdout.strip()
try:
    for p in props:
        env = dict(os.environ, VERIF_REPO=scratch + "/repo", VERIF_EVIDENCE_DIR=scratch, VERIF_REPLAY_DIR=scratch, VERIF_SHRINK_BUDGET="150")
        t0 = time.time()
        r = subprocess.run(["/verif/check", p, "quick"], capture_output=True, text=True, env=env)
        lines = [ln for ln in r.stdout.splitlines() if ln.startswith(("VIOLATION", "  oracle", "HARNESS", "COVERAGE")) or " quick: " in ln]
        rec = {"check": p, "rc": r.returncode, "wall_s": round(time.time() - t0, 1), "verif_commit_before": head, "note": note, "lines": [ln[:400] for ln in lines[:6]]}
        meta.setdefault("rechecks", []).append(rec)
        print(name, p, "rc", r.returncode, *[ln[:260] for ln in lines[:3]], sep="\n   ")
        if p == prop and r.returncode == 1:
            meta["detected_by_own_check"] = True
            for ln in lines:
                if ln.startswith("VIOLATION"):
                    rp = ln.split("replay=")[1].strip()
                    if os.path.exists(rp):
                        shutil.copy(rp, f"{src}/replay-{p}.json")
                    break
finally:
    shutil.rmtree(scratch, ignore_errors=True)
json.dump(meta, open(f"{src}/meta.json", "w"), indent=1)
