#!/venv/bin/python
"""Confirm a seeded change delivered by a sub-agent and run the checks against it.

usage: seeded_eval.py <property> <n> [extra-props,comma-separated]
reads  /tmp/wtout/<property>/patch<n>.diff, demo<n>.py, notes<n>.md
uses   the scratch worktree /tmp/wt/<property> for the confirmation (suite + demo)
then   applies the patch to /repo, runs ./check <property> quick (evidence/replays
       redirected to a scratch dir), and reverts /repo straight afterwards.
writes /verif/seeded/<property>-<n>/{patch.diff,demo.py,notes.md,meta.json}
"""
import json
import os
import shutil
import subprocess
import sys
import time

tag, n = sys.argv[1], sys.argv[2]
prop, rnd = tag[:3], tag[3:]
extra = sys.argv[3].split(",") if len(sys.argv) > 3 else []
src = f"/tmp/wtout/{tag}"
wt = f"/tmp/wt/{tag}"
dest = f"/verif/seeded/{prop}-{rnd}{n}"
patch = f"{src}/patch{n}.diff"
demo = f"{src}/demo{n}.py"


def sh(cmd, **kw):
    return subprocess.run(cmd, shell=True, capture_output=True, text=True, **kw)


meta = {"property": prop, "patch": os.path.basename(patch), "confirmed": {}, "checks": {}}
assert sh(f"git -C {wt} status --porcelain").stdout.strip() == "", "worktree not clean"
r = sh(f"git -C {wt} apply {patch}")
assert r.returncode == 0, r.stderr
try:
    t0 = time.time()
    r = sh(f"cd {wt} && PYTHONPATH={wt}/src timeout 1500 /venv/bin/python -m pytest -q -p no:cacheprovider -n 8 2>&1 | tail -1")
    meta["confirmed"]["suite_with_change"] = r.stdout.strip()
    r = sh(f"PYTHONPATH={wt}/src timeout 300 /venv/bin/python {demo}")
    meta["confirmed"]["demo_with_change"] = {"rc": r.returncode, "tail": (r.stdout + r.stderr)[-400:]}
finally:
    sh(f"git -C {wt} checkout -- . && git -C {wt} clean -fdq")
r = sh(f"PYTHONPATH={wt}/src timeout 300 /venv/bin/python {demo}")
meta["confirmed"]["demo_without_change"] = {"rc": r.returncode, "tail": (r.stdout + r.stderr)[-200:]}
ok = "431 passed" in meta["confirmed"]["suite_with_change"] and meta["confirmed"]["demo_with_change"]["rc"] != 0 and meta["confirmed"]["demo_without_change"]["rc"] == 0
meta["confirmed"]["ok"] = ok
print("confirmed:", ok, meta["confirmed"]["suite_with_change"], meta["confirmed"]["demo_with_change"]["rc"], meta["confirmed"]["demo_without_change"]["rc"])

# run the checks against it: the patch is applied to a scratch copy of /repo (git archive of
# HEAD + working tree) and the checks are pointed at it with VERIF_REPO, so /repo itself is
# never modified while background soaks use it
scratch = f"/dev/shm/seeded-eval-{tag}-{n}"
shutil.rmtree(scratch, ignore_errors=True)
os.makedirs(scratch + "/repo")
sh(f"cd /repo && git ls-files -z src | xargs -0 cp --parents -t {scratch}/repo")
r = sh(f"cd {scratch}/repo && patch -p1 --no-backup-if-mismatch < {patch}")
assert r.returncode == 0, r.stdout + r.stderr
try:
    for p in [prop] + extra:
        env = dict(os.environ, VERIF_REPO=scratch + "/repo", VERIF_EVIDENCE_DIR=scratch, VERIF_REPLAY_DIR=scratch, VERIF_SHRINK_BUDGET="150")
        t0 = time.time()
        r = subprocess.run(["/verif/check", p, "quick"], capture_output=True, text=True, env=env)
        lines = [ln for ln in r.stdout.splitlines() if ln.startswith(("VIOLATION", "  oracle", "HARNESS", "KNOWN", "COVERAGE")) or " quick: " in ln]
        meta["checks"][p] = {"rc": r.returncode, "wall_s": round(time.time() - t0, 1), "lines": [ln[:400] for ln in lines[:12]]}
        print(p, "rc", r.returncode, *[ln[:260] for ln in lines[:4]], sep="\n   ")
        for ln in lines:
            if ln.startswith("VIOLATION"):
                rp = ln.split("replay=")[1].strip()
                if os.path.exists(rp) and p == prop:
                    os.makedirs(dest, exist_ok=True)
                    shutil.copy(rp, f"{dest}/replay-{p}.json")
                break
finally:
    shutil.rmtree(scratch, ignore_errors=True)
meta["detected_by_own_check"] = meta["checks"][prop]["rc"] == 1
os.makedirs(dest, exist_ok=True)
shutil.copy(patch, f"{dest}/patch.diff")
shutil.copy(demo, f"{dest}/demo.py")
if os.path.exists(f"{src}/notes{n}.md"):
    shutil.copy(f"{src}/notes{n}.md", f"{dest}/notes.md")
meta["ran"] = [
    f"git -C {wt} apply patch.diff; cd {wt} && PYTHONPATH=src pytest -q -n 8; PYTHONPATH=src python demo.py (expect rc 1); git checkout -- .; python demo.py (expect rc 0)",
    f"copy of /repo/src + patch -p1 < patch.diff under /dev/shm; VERIF_REPO=<copy> ./check {prop} quick; copy removed",
]
json.dump(meta, open(f"{dest}/meta.json", "w"), indent=1)
