#!/bin/bash
# soak: run every quick (or thorough) check under many seeds on the current tree; print only alarms
# usage: tools/soak.sh <first-seed> <last-seed> [tier] [props...]
cd "$(dirname "$0")/.." || exit 2
a=$1; b=$2; tier=${3:-quick}; shift 3
props=${*:-C01 C02 C03 C04 C05 C06 C07 C08 C09 C10 C11 C14 C15 C16 C20}
out=${SOAK_OUT:-/dev/shm/soak-$$}
mkdir -p "$out"
for seed in $(seq "$a" "$b"); do
  for p in $props; do
    VERIF_SEED=$seed VERIF_EVIDENCE_DIR=$out/ev VERIF_REPLAY_DIR=$out/replays ./check "$p" "$tier" > "$out/last.log" 2>&1
    rc=$?
    if [ $rc -ne 0 ] || grep -q -E "^(VIOLATION|HARNESS|COVERAGE)" "$out/last.log"; then
      echo "== seed=$seed prop=$p rc=$rc"; grep -E "^(VIOLATION|HARNESS|COVERAGE|  oracle)" "$out/last.log" | cut -c1-400
    fi
  done
  echo "seed $seed done $(date +%H:%M:%S)"
done
echo "soak finished; replays (if any) in $out/replays"
